"""C05 — genotype priors are proper distributions and mutually consistent.

Correspondence: calling `log_genotype_prior`, `log_genotype_allele_prior`, assemble
`log_genotype_prior` (null and Dirichlet-multinomial), `ln_equivalent_permutations`,
`get_haplotype_dosage` vs the Lean model (`MCHap/Model/Prior.lean`), over completely enumerated
genotype spaces. Implementation oracles: the sum over the enumerated space, the exact conditional
built from the implementation's own genotype prior, assemble == call(flat), and an independent
Fraction evaluation of the Dirichlet-multinomial with dispersion f(1-F)/F.
"""
from __future__ import annotations

import itertools
import math
from fractions import Fraction

import numpy as np

from . import common as C

PROP = "C05"
MODULE = "MCHap.Properties.C05"
THEOREMS = [
    "MCHap.C05.compositions_spec",
    "MCHap.C05.countsOf_ofCounts",
    "MCHap.C05.dm_sum_one",
    "MCHap.C05.multinomial_sum_one",
    "MCHap.C05.callPrior_sum_one",
    "MCHap.C05.dmCounts_zero_of_zero_alpha",
    "MCHap.C05.dmOrdered_insert",
    "MCHap.C05.allele_conditional",
    "MCHap.C05.allelePrior_eq_urn",
    "MCHap.C05.allelePrior_flat_eq_urn",
    "MCHap.C05.allelePrior_F0",
    "MCHap.C05.dmCounts_eq_perms_mul_ordered",
    "MCHap.C05.assemblePrior_perm",
    "MCHap.C05.assemblePrior_zero",
    "MCHap.C05.assemblePrior_eq_callPrior_flat",
    "MCHap.C05.gamma_ratio_eq_rising",
    "MCHap.C05.gamma_factorial",
]
RULE = ("cases: every unordered genotype of completely enumerated spaces (ploidy 1..6 x 1..5 alleles in quick, more in thorough; (40,2), "
        "(24,3); (2,300): sum over the whole space, values on a sample) x inbreeding {0, 0.01, 0.25, 0.5, 0.9, log-uniform in (1e-9,1e-2), "
        "1-10^-k} x frequencies {flat(None), flat array, skewed, with zero entries, tiny (1e-3..1e-12)}; genotypes sorted or shuffled, "
        "int64/int32/int16/int8; every allele position for the conditional prior; assemble prior over 2^1..2^700 haplotypes; pools of ploidy "
        "100..200 through get_haplotype_dosage with the buffer dtype observed at the sampler's call sites. Non-trivial: genotype with a "
        "repeated allele and >= 2 distinct alleles, under F > 0 or non-flat frequencies. Distinct by canonical request line.")

INBREEDING = [0.0, 0.01, 0.25, 0.5, 0.9]


def rising(a: Fraction, k: int) -> Fraction:
    out = Fraction(1)
    for i in range(k):
        out *= a + i
    return out


def exact_dm(g, n, F, freqs):
    """the documented prior, independently: multinomial (F = 0) / Dirichlet-multinomial with alpha = f (1 - F) / F"""
    p = len(g)
    fs = [Fraction(1, n)] * n if freqs is None else [Fraction(float(x)) for x in freqs]
    counts = [g.count(a) for a in range(n)]
    F = Fraction(float(F))
    coef = Fraction(math.factorial(p))
    for c in counts:
        coef /= math.factorial(c)
    if F == 0:
        out = coef
        for a, c in enumerate(counts):
            out *= fs[a] ** c
        return out
    alphas = [f * (1 - F) / F for f in fs]
    A = sum(alphas)
    out = coef / rising(A, p)
    for a, c in enumerate(counts):
        out *= rising(alphas[a], c)
    return out


FREQ_KINDS = ("none", "flatarr", "skew", "zeros", "tiny")


def gen_freqs(r, n, kinds=FREQ_KINDS):
    """prior allele frequencies: None, the explicit flat vector, skewed (within ~21:1), with zero entries, or `tiny`:
    one or more entries log-uniform in 1e-3 .. 1e-12 next to ordinary ones (a dynamic range of up to 12 decimal orders)"""
    kind = r.choice(list(kinds))
    if kind == "none":
        return kind, None
    if kind == "flatarr":
        return kind, np.full(n, 1.0 / n)
    v = np.array([r.random() + 0.05 for _ in range(n)])
    if kind == "zeros" and n >= 2:
        for i in r.sample(range(n), r.randint(1, n - 1)):
            v[i] = 0.0
    if kind == "tiny" and n >= 2:
        for i in r.sample(range(n), r.randint(1, n - 1)):
            v[i] = 10.0 ** (-r.uniform(3.0, 12.0))
    return kind, v / v.sum()


def gen_inbreeding(r):
    """inbreeding coefficients beyond the fixed grid: log-uniform in (1e-9, 1e-2) and 1 - 10^-k"""
    if r.random() < 0.5:
        return 10.0 ** (-r.uniform(2.0, 9.0))
    return 1.0 - 10.0 ** (-r.choice([1, 2, 3, 4, 6, 9, 12, 15]))


def lgamma_resolution(ploidy, F, scale=1.0):
    """float64 resolution of the code's log-gamma form of the Dirichlet-multinomial: the pmf is evaluated as
    lgamma(A) - lgamma(ploidy + A) + ... with A = sum of the dispersions = scale (1 - F) / F; for F -> 0 the two terms are of
    magnitude A log A and cancel, so the result cannot be better than a few units in the last place of that magnitude
    (IEEE-754 evaluation is modelled, not verified: DESIGN section 3).  Returned: 8 ulp(lgamma(ploidy + A)); 0 for F = 0."""
    F = float(F)
    if F <= 0.0:
        return 0.0
    A = scale * (1.0 - F) / F
    try:
        m = abs(math.lgamma(ploidy + A)) + abs(math.lgamma(A)) if A > 0 else 0.0
    except (OverflowError, ValueError):
        return math.inf
    return 8.0 * math.ulp(m)


def f0_product_underflows(g, freqs):
    """F = 0 with explicit frequencies: the code multiplies the frequencies of the genotype's alleles in float64 before taking
    the log; below ~1e-308 that product is 0 (denormal from 1e-308 to 1e-324) although the exact value is positive"""
    if freqs is None:
        return False
    lp = 0.0
    for a in g:
        if freqs[a] <= 0:
            return False
        lp += math.log10(freqs[a])
    return lp < -300.0


def ftoks(freqs, n):
    return ["flat"] if freqs is None else [C.rat_str(x) for x in freqs]


def prob(x):
    """exp of a log-probability, with -inf -> 0 and nan kept"""
    x = float(x)
    if math.isnan(x):
        return math.nan
    return math.exp(x)


def observe_dosage_dtypes(chk):
    """dtype of the dosage buffer each assemble-sampler call site hands to `get_haplotype_dosage` (and then to the
    assemble prior): the callers run as plain Python with the module-level name replaced by a recording wrapper"""
    from mchap.assemble import mutation, structural, tempering
    from mchap.assemble.likelihood import log_likelihood
    import mchap.jitutils as ju
    seen = []

    def wrap(site):
        def rec(dosage, genotype, interval=None):
            seen.append((site, np.dtype(dosage.dtype)))
            return ju.get_haplotype_dosage(dosage, genotype, interval)
        return rec
    g = np.array([[0, 1, 0], [0, 1, 0], [1, 1, 0], [1, 0, 1]], dtype=np.int8)
    reads = np.full((2, 3, 2), 0.5)
    counts = np.array([1, 2], dtype=np.int64)
    llk = float(log_likelihood(reads, g, read_counts=counts))
    labels = np.array([[0, 0], [0, 0], [2, 0], [3, 3]], dtype=np.int64)
    sites = [
        ("mutation.base_step", mutation, lambda: mutation.base_step.py_func(g.copy(), reads, llk, 0, 0, 2, math.log(8), inbreeding=0.1, temp=1.0,
                                                                            read_counts=counts, cache=None)),
        ("structural.interval_step", structural, lambda: structural.interval_step.py_func(g.copy(), reads, llk, math.log(8), inbreeding=0.1,
                                                                                          interval=(0, 1), step_type=1, temp=1.0,
                                                                                          read_counts=counts, cache=None)),
        ("structural.dosage_step_n_options", structural, lambda: structural.dosage_step_n_options.py_func(labels)),
        ("structural.recombination_step_n_options", structural, lambda: structural.recombination_step_n_options.py_func(labels)),
        ("tempering.chain_swap_step", tempering, lambda: tempering.chain_swap_step.py_func(g.copy(), llk, 1.0, g[::-1].copy(), llk, 0.5,
                                                                                           math.log(8), 0.1)),
    ]
    for site, mod, call in sites:
        orig = getattr(mod, "get_haplotype_dosage", None)
        if orig is None:
            chk.count(f"dosage-buffer:{site}:not-observable")
            continue
        setattr(mod, "get_haplotype_dosage", wrap(site))
        try:
            call()
        except Exception as e:   # noqa: BLE001  (C01 drives these moves; here only the buffer dtype is read off)
            chk.count(f"dosage-buffer:{site}:not-observable")
            chk.notes.append(f"dosage buffer of {site} not observed: {type(e).__name__}: {str(e)[:120]}")
        finally:
            setattr(mod, "get_haplotype_dosage", orig)
    for site, dt in seen:
        chk.count(f"dosage-buffer:{site}:{dt}")
    dts = sorted({dt for _, dt in seen}, key=str)
    return [dt.type for dt in dts] or [np.int64]


def run(tier, replay=None):
    from mchap.calling.prior import log_genotype_prior as call_prior, log_genotype_allele_prior as allele_prior
    from mchap.assemble.prior import log_genotype_prior as asm_prior
    from mchap.jitutils import ln_equivalent_permutations, get_haplotype_dosage

    chk = C.Check(PROP, tier, MODULE, THEOREMS, RULE, assumptions=[
        "lgamma / log / exp in float64 are compared at rel 1e-9 (sums at 1e-9 absolute), not proved",
        "for F below ~1e-6 the code's lgamma(A) - lgamma(ploidy + A), A = (1-F)/F, cancels terms of magnitude A log A: the tolerance is "
        "widened by 8 units in the last place of those terms (2.5e-6 relative at F = 1e-9); such cases are counted",
        "F = 0 with explicit frequencies: the float64 product of a genotype's allele frequencies underflows below 1e-300 "
        "(ploidy 40 with frequencies 1e-9): counted, not compared in log space",
        "frequency vectors are float64 and sum to one only up to rounding; the theorem is for exact sums",
    ])
    chk.prove()
    drv = C.Driver()
    r = C.rng(PROP)

    if tier == "warm":
        spaces = [(2, 2), (3, 2), (40, 2)]
    elif tier == "quick":
        spaces = [(p, n) for p in (1, 2, 3, 4, 6) for n in (1, 2, 3, 5)] + [(5, 4), (8, 3), (2, 12), (40, 2), (24, 3), (2, 300)]
    else:
        spaces = [(p, n) for p in range(1, 9) for n in range(1, 7)] + [(12, 3), (2, 40), (3, 20), (10, 4), (40, 2), (24, 3), (60, 2),
                                                                      (2, 300), (3, 60)]

    # the buffer dtypes the assemble sampler hands to get_haplotype_dosage / the assemble prior (observed, see below)
    caller_dtypes = observe_dosage_dtypes(chk)
    int_F_done = False

    def p_ok(x, y, res, rel=1e-9):
        """probability-scale agreement (Appendix A) plus the float64 resolution of the log-gamma form (0 unless F is tiny)"""
        if not (math.isfinite(x) and math.isfinite(y)):
            return False
        return abs(x - y) <= (rel + res) * max(abs(x), abs(y)) + 1e-12

    def l_ok(x, y, res):
        """log-scale agreement; -inf only with -inf, NaN with nothing"""
        if math.isnan(x) or math.isnan(y):
            return False
        if math.isinf(x) or math.isinf(y):
            return x == y
        return abs(x - y) <= 1e-9 * (1 + abs(y)) + res

    GDT = [np.int64, np.int64, np.int32, np.int16, np.int8]

    def as_array(gl, n):
        dt = r.choice(GDT)
        if dt == np.int8 and n > 127:
            dt = np.int32
        return np.array(gl, dtype=dt)

    for (ploidy, n) in spaces:
        genos = list(itertools.combinations_with_replacement(range(n), ploidy))
        large = len(genos) > 2000      # values on a sample, the sum over the whole space from the implementation
        configs = []
        if large:
            configs = [(0.0, *gen_freqs(r, n)), (0.25, *gen_freqs(r, n)), (gen_inbreeding(r), *gen_freqs(r, n, kinds=("tiny", "skew")))]
        else:
            for F in INBREEDING:
                if tier == "warm" and F not in (0.0, 0.25):
                    continue
                for _ in range(2 if tier != "thorough" else 3):
                    configs.append((F, *gen_freqs(r, n)))
            # inbreeding off the grid (log-uniform towards 0, 1 - 10^-k) with the full range of frequency kinds
            for _ in range(1 if tier == "warm" else (3 if tier != "thorough" else 5)):
                configs.append((gen_inbreeding(r), *gen_freqs(r, n)))
        for (F, kind, freqs) in configs:
            res = lgamma_resolution(ploidy, F, 1.0 if freqs is None else float(freqs.sum()))
            fkey = F if F in INBREEDING else ("log-uniform(1e-9,1e-2)" if F < 0.5 else "1-10^-k")
            if res > 1e-9:
                chk.count("numeric:lgamma-resolution-above-1e-9(tolerance widened to 8 ulp of the cancelling terms)")
            sampled = set(genos) if not large else set(r.sample(genos, 150))
            shuffled = {}
            lines = []
            for g in genos:
                gl = list(g)
                if r.random() < 0.5:
                    r.shuffle(gl)
                shuffled[g] = gl
                if g in sampled:
                    lines.append(" ".join(["prior.call", str(n), C.rat_str(F)] + ftoks(freqs, n) + [str(a) for a in gl]))
            ans = dict(zip([g for g in genos if g in sampled], zip(drv.ask(lines), lines)))
            impl, impl_log = {}, {}
            total = 0.0
            for g in genos:
                gl = shuffled[g]
                garr = as_array(gl, n)
                case = {"genotype": gl, "dtype": str(garr.dtype), "n_alleles": n, "inbreeding": F,
                        "frequencies": None if freqs is None else freqs.tolist()}
                try:
                    lp = float(call_prior(garr, n, inbreeding=F, frequencies=freqs))
                except Exception as e:   # noqa: BLE001
                    chk.violation(f"calling log_genotype_prior raises on a valid genotype: {type(e).__name__}: {e}", case, "C05/call_prior/raises")
                    lp = math.nan
                pi = prob(lp)
                impl[g] = pi
                impl_log[g] = lp
                total += pi
                chk.count(f"call:F={fkey}"); chk.count(f"call:freq={kind}"); chk.count(f"call:dtype={garr.dtype}")
                if gl != list(g):
                    chk.count("call:unsorted-genotype")
                if g not in sampled:
                    continue
                a, line = ans[g]
                am = C.parse_rat(a)
                pm = float(am)
                nontriv = len(set(g)) >= 2 and len(set(g)) < len(g) and (F > 0 or kind in ("skew", "zeros", "tiny"))
                chk.case(line, nontriv, sample={"request": line[:200], "impl": pi, "model": pm})
                underflow = F == 0 and f0_product_underflows(g, freqs)
                if underflow:
                    # numerical range of the implementation, not a property failure: the float64 product of the frequencies is 0 / denormal
                    chk.count("numeric:F0-frequency-product-underflow(observed, not compared in log space)")
                if not p_ok(pi, pm, res) or not (underflow or l_ok(lp, C.frac_log(am), res)):
                    chk.disagreement("calling log_genotype_prior != model callPrior", {**case, "impl": pi, "model": pm, "impl_log": lp})
                ex = exact_dm(list(g), n, F, freqs)
                truth = float(ex)
                if not p_ok(pi, truth, res) or not (underflow or l_ok(lp, C.frac_log(ex), res)):
                    chk.violation("genotype prior differs from the (Dirichlet-)multinomial with dispersion f(1-F)/F",
                                  {**case, "impl": pi, "expected": truth, "impl_log": lp, "expected_log": C.frac_log(ex)}, "C05/call_prior/formula")
                if kind == "zeros" and any(freqs[a] == 0 for a in g) and pi != 0.0:
                    chk.violation("genotype containing a zero-frequency allele has positive prior", {**case, "impl": pi},
                                  "C05/call_prior/zero-frequency")
                if not int_F_done and len(set(g)) >= 2 and kind != "none" and F == 0.0:
                    # the CLI hands a Python float; the default argument is the int 0: same value required
                    int_F_done = True
                    chk.count("call:inbreeding-as-int-0")
                    try:
                        lp0 = float(call_prior(garr, n, inbreeding=0, frequencies=freqs))
                        la0 = float(allele_prior(garr, 0, n, inbreeding=0, frequencies=freqs))
                        la = float(allele_prior(garr, 0, n, inbreeding=0.0, frequencies=freqs))
                        d0 = np.array([gl.count(x) if gl.index(x) == i else 0 for i, x in enumerate(gl)], dtype=np.int64)
                        ls0 = float(asm_prior(d0, math.log(n), inbreeding=0)); ls = float(asm_prior(d0, math.log(n), inbreeding=0.0))
                        if not (l_ok(lp0, lp, 0.0) and l_ok(la0, la, 0.0) and l_ok(ls0, ls, 0.0)):
                            chk.violation("a prior changes when the inbreeding coefficient 0 is given as an int instead of a float",
                                          {**case, "call": [lp0, lp], "allele": [la0, la], "assemble": [ls0, ls]}, "C05/inbreeding-int-zero")
                    except Exception as e:   # noqa: BLE001
                        chk.violation(f"a prior function raises for inbreeding given as the int 0: {type(e).__name__}: {e}", case,
                                      "C05/inbreeding-int-zero")
            if not (abs(total - 1.0) <= 1e-9 + res):     # a NaN total is a failure too
                chk.violation(f"genotype prior sums to {total!r} over all unordered genotypes",
                              {"ploidy": ploidy, "n_alleles": n, "inbreeding": F,
                               "frequencies": None if freqs is None else freqs.tolist(), "sum": total},
                              "C05/call_prior/sum")
            chk.count("call:sum-over-space" + (":large" if large else ""))
            # ---- conditional prior for every (genotype, position): sub-sample positions in large spaces
            sub = genos if len(genos) <= 60 else r.sample(genos, 60)
            lines, meta = [], []
            for g in sub:
                gl = list(g)
                if r.random() < 0.5:
                    r.shuffle(gl)
                for k in (range(ploidy) if ploidy <= 8 else sorted(r.sample(range(ploidy), 4))):
                    lines.append(" ".join(["prior.allele", str(n), C.rat_str(F)] + ftoks(freqs, n) + [str(k)] + [str(a) for a in gl]))
                    meta.append((g, gl, k))
            ans = drv.ask(lines)
            for (g, gl, k), a, line in zip(meta, ans, lines):
                garr = as_array(gl, n)
                case = {"genotype": gl, "dtype": str(garr.dtype), "position": k, "n_alleles": n, "inbreeding": F,
                        "frequencies": None if freqs is None else freqs.tolist()}
                try:
                    ci = prob(allele_prior(garr, k, n, inbreeding=F, frequencies=freqs))
                except Exception as e:   # noqa: BLE001
                    chk.violation(f"log_genotype_allele_prior raises on a valid genotype: {type(e).__name__}: {e}", case, "C05/allele_prior/raises")
                    continue
                cm = float(C.parse_rat(a))
                chk.count("allele-conditional")
                chk.case(line, len(set(g)) < len(g) and F > 0)
                if not p_ok(ci, cm, res):
                    chk.disagreement("log_genotype_allele_prior != model allelePrior", {**case, "impl": ci, "model": cm})
                # exact conditional from the implementation's own genotype prior: pi_o(g) = P(g) / perms(g), in log space
                def ordered_log(gg):
                    gs = tuple(sorted(gg))
                    perms = math.factorial(ploidy)
                    for a_ in set(gs):
                        perms //= math.factorial(gs.count(a_))
                    return impl_log[gs] - math.log(perms)
                variants = []
                for y in range(n):
                    gy = list(gl); gy[k] = y
                    variants.append(gy)
                if F == 0 and any(f0_product_underflows(gy, freqs) for gy in variants):
                    chk.count("numeric:F0-frequency-product-underflow(conditional not derived)")
                    continue
                ols = [ordered_log(gy) for gy in variants]
                top = max(ols)
                if math.isfinite(top) and not any(math.isnan(x) for x in ols):
                    denom = sum(math.exp(x - top) for x in ols)
                    cond = math.exp(ordered_log(gl) - top) / denom
                    if not p_ok(ci, cond, 2 * res, rel=1e-8):
                        chk.violation("single-allele conditional prior is not the conditional of the genotype prior",
                                      {**case, "impl": ci, "expected": cond}, "C05/allele_prior/conditional")
            # ---- assemble prior (flat over U = n haplotypes) == call prior with flat frequencies
            if kind == "none":
                lines, meta = [], []
                for g in (genos if not large else sorted(sampled)):
                    # a dosage vector as get_haplotype_dosage gives it: multiplicity at first occurrence, 0 elsewhere
                    gl = list(g); r.shuffle(gl)
                    dosage = [gl.count(x) if gl.index(x) == i else 0 for i, x in enumerate(gl)]
                    lines.append(" ".join(["prior.asm", str(n), C.rat_str(F)] + [str(d) for d in dosage]))
                    meta.append((g, dosage))
                ans = drv.ask(lines)
                for (g, dosage), a, line in zip(meta, ans, lines):
                    ddt = r.choice(caller_dtypes + [np.int8])
                    ai = prob(asm_prior(np.array(dosage, dtype=ddt), math.log(n), inbreeding=F))
                    am = float(C.parse_rat(a))
                    chk.count("assemble-prior"); chk.count(f"assemble-prior:dosage-dtype={np.dtype(ddt)}")
                    chk.case(line, len(set(g)) < len(g) and F > 0)
                    case = {"genotype": list(g), "dosage": dosage, "dosage_dtype": str(np.dtype(ddt)), "unique_haplotypes": n, "inbreeding": F}
                    if not p_ok(ai, am, res):
                        chk.disagreement("assemble log_genotype_prior != model assemblePrior", {**case, "impl": ai, "model": am})
                    if not p_ok(ai, impl[g], 2 * res):
                        chk.violation("assemble prior != call prior with flat frequencies over all haplotypes",
                                      {**case, "assemble": ai, "call": impl[g]}, "C05/assemble_prior/flat-call")

    # ---------------- assemble prior over large haplotype spaces (many SNVs): values, not sums
    n_big = {"warm": 5, "quick": 500, "thorough": 5000}[tier]
    lines, meta = [], []
    for _ in range(n_big):
        bits = r.choice([1, 2, 5, 10, 20, 27, 30, 40, 50, 60, 64, 100, 300, 700])
        U = 2 ** bits if r.random() < 0.7 else 3 ** r.randint(1, 37)
        F = r.choice(INBREEDING + [0.999]) if r.random() < 0.7 else gen_inbreeding(r)
        ploidy = r.choice([2, 3, 4, 6, 8, 12])
        # random partition of the ploidy into doses (excess of large doses)
        doses, left = [], ploidy
        while left > 0:
            d = r.randint(1, left) if r.random() < 0.6 else 1
            doses.append(d); left -= d
        r.shuffle(doses)
        dosage = []
        for d in doses:
            dosage += [d] + [0] * (d - 1)
        lines.append(" ".join(["prior.asm", str(U), C.rat_str(F)] + [str(d) for d in dosage]))
        meta.append((U, F, ploidy, doses, dosage))
    ans = drv.ask(lines)
    for (U, F, ploidy, doses, dosage), a, line in zip(meta, ans, lines):
        logU = math.log(U)
        ddt = r.choice(caller_dtypes + [np.int8])
        res = lgamma_resolution(ploidy, F)
        case = {"unique_haplotypes": U, "inbreeding": F, "dosage": dosage, "dosage_dtype": str(np.dtype(ddt))}
        try:
            li = float(asm_prior(np.array(dosage, dtype=ddt), logU, inbreeding=F))
        except Exception as e:   # noqa: BLE001
            chk.violation(f"assemble log_genotype_prior raises: {type(e).__name__}: {e}", case, "C05/assemble_prior/raises")
            continue
        am = C.parse_rat(a)
        chk.count(f"assemble-prior:big:log2U~{min(int(math.log2(U)) // 10 * 10, 100) if U < 2 ** 100 else ('100+' if U < 2 ** 300 else '300+')}")
        chk.count("assemble-prior:big:F=" + ("grid" if F in INBREEDING + [0.999] else ("log-uniform(1e-9,1e-2)" if F < 0.5 else "1-10^-k")))
        if res > 1e-9:
            chk.count("numeric:lgamma-resolution-above-1e-9(tolerance widened to 8 ulp of the cancelling terms)")
        chk.case(line, max(doses) >= 3 and F > 0 and U > 2 ** 20)
        lm = C.frac_log(am)

        def lclose(x, y):
            if math.isnan(x) or math.isnan(y):
                return False
            if math.isinf(x) or math.isinf(y):
                return x == y
            return abs(x - y) <= 1e-9 * (1 + abs(y)) + res
        if not lclose(li, lm):
            chk.disagreement("assemble log_genotype_prior != model assemblePrior (large haplotype space)", {**case, "impl_log": li, "model_log": lm})
        # the documented Dirichlet-multinomial with flat dispersion (1-F)/(F U), independently
        Ff = Fraction(float(F))
        coef = Fraction(math.factorial(ploidy))
        for d in doses:
            coef /= math.factorial(d)
        if Ff == 0:
            truth = coef / Fraction(U) ** ploidy
        else:
            A = (1 - Ff) / Ff
            al = A / U
            truth = coef / rising(A, ploidy)
            for d in doses:
                truth *= rising(al, d)
        lt = C.frac_log(truth)
        if not lclose(li, lt):
            chk.violation("assemble genotype prior differs from the Dirichlet-multinomial with flat dispersion over all haplotypes",
                          {**case, "impl_log": li, "expected_log": lt}, "C05/assemble_prior/formula")
        # ... and equals the call prior with flat frequencies over the same number of haplotypes
        g = []
        for i, d in enumerate(doses):
            g += [i] * d
        if U >= len(doses) and U < 2 ** 62:
            r.shuffle(g)
            lc = float(call_prior(np.array(g, dtype=r.choice([np.int64, np.int32])), U, inbreeding=F, frequencies=None))
            if not (abs(li - lc) <= 1e-9 * (1 + abs(lc)) + 2 * res):
                chk.violation("assemble prior != call prior with flat frequencies over all haplotypes",
                              {**case, "assemble_log": li, "call_log": lc}, "C05/assemble_prior/flat-call")

    # ---------------- large pools (regression stream for F16): ploidy 100-200, at most two distinct haplotypes, so one of them
    # has more than 127 copies; get_haplotype_dosage with a buffer of the dtype the sampler's call sites use, then the
    # assemble prior and the permutation count on that very vector
    n_pool = {"warm": 2, "quick": 40, "thorough": 400}[tier]
    for it in range(n_pool):
        ploidy = r.randint(100, 200)
        nb = r.randint(1, 3)
        h0 = [r.randrange(2) for _ in range(nb)]
        h1 = list(h0); h1[r.randrange(nb)] ^= 1
        minor = r.choice([0, 0, 1, 2, r.randint(1, ploidy // 2)])
        if ploidy - minor < 128 and r.random() < 0.7:
            minor = r.randint(0, max(0, ploidy - 129)) if ploidy >= 129 else 0
        g = [list(h0)] * (ploidy - minor) + [list(h1)] * minor
        r.shuffle(g)
        as_labels = it % 3 == 2        # the interval moves hand (ploidy, 2) int64 label arrays instead of int8 haplotypes
        garr = np.array(g, dtype=np.int8)
        if as_labels:
            first = {}
            lab = [first.setdefault(tuple(h), i) for i, h in enumerate(g)]
            garr = np.array([[x, 0] for x in lab], dtype=np.int64)
        truth = [sum(1 for h2 in g if h2 == h) if g.index(h) == i else 0 for i, h in enumerate(g)]
        F = r.choice([0.0, 0.1, 0.5]) if it % 2 else gen_inbreeding(r)
        U = 2 ** nb if not as_labels else 2 ** r.choice([2, 10, 40])
        for ddt in caller_dtypes:
            d = np.empty(ploidy, dtype=ddt)
            case = {"ploidy": ploidy, "copies": [ploidy - minor, minor], "buffer_dtype": str(np.dtype(ddt)), "labels_input": as_labels,
                    "inbreeding": F, "unique_haplotypes": U}
            chk.count(f"large-pool:dosage-buffer={np.dtype(ddt)}"); chk.count("large-pool:max-copies>127" if ploidy - minor > 127 else "large-pool:max-copies<=127")
            chk.case(("large-pool", ploidy, minor, nb, str(np.dtype(ddt)), as_labels, F), minor > 0)
            try:
                get_haplotype_dosage(d, garr)
                lperm = float(ln_equivalent_permutations(d))
                li = float(asm_prior(d, math.log(U), inbreeding=F))
            except Exception as e:   # noqa: BLE001
                chk.violation(f"dosage / assemble prior of a large pool raises: {type(e).__name__}: {e}", case, "C05/large-pool/raises")
                continue
            if d.tolist() != truth:
                chk.violation("get_haplotype_dosage, with the dosage buffer the assemble sampler allocates, is not the "
                              "multiplicity-at-first-occurrence vector for a pool with more than 127 copies of one haplotype",
                              {**case, "impl": [x for x in d.tolist() if x != 0], "expected": [x for x in truth if x != 0]}, "C05/dosage")
                continue
            doses = [x for x in truth if x > 0]
            coef = Fraction(math.factorial(ploidy))
            for x in doses:
                coef /= math.factorial(x)
            if not C.close_log(lperm, C.frac_log(coef)):
                chk.violation("ln_equivalent_permutations of a large pool is not log(p!/prod d_i!)",
                              {**case, "impl": lperm, "expected": C.frac_log(coef)}, "C05/perms/large-pool")
            Ff = Fraction(float(F))
            if Ff == 0:
                tr = coef / Fraction(U) ** ploidy
            else:
                A = (1 - Ff) / Ff
                tr = coef / rising(A, ploidy)
                for x in doses:
                    tr *= rising(A / U, x)
            lt = C.frac_log(tr)
            res = lgamma_resolution(ploidy, F)
            if math.isnan(li) or not (abs(li - lt) <= 1e-9 * (1 + abs(lt)) + res):
                chk.violation("assemble genotype prior of a large pool differs from the Dirichlet-multinomial with flat dispersion",
                              {**case, "impl_log": li, "expected_log": lt}, "C05/assemble_prior/formula")

    # ---------------- permutations count and dosage extraction
    lines, meta = [], []
    for _ in range({"warm": 5, "quick": 150, "thorough": 1500}[tier]):
        ploidy = r.choice([1, 2, 3, 4, 6, 8, 12])
        nb = r.randint(1, 4)
        pool = [[r.randrange(3) for _ in range(nb)] for _ in range(r.randint(1, ploidy))]
        g = [r.choice(pool) for _ in range(ploidy)]
        lines.append(" ".join(["prior.dosage", str(nb), str(ploidy)] + [str(a) for h in g for a in h]))
        meta.append(g)
    ans = drv.ask(lines)
    plines = []
    for g, a, line in zip(meta, ans, lines):
        garr = np.array(g, dtype=np.int8)
        d = np.zeros(len(g), dtype=np.int8)
        get_haplotype_dosage(d, garr)
        chk.count("dosage")
        chk.case(line, len({tuple(h) for h in g}) < len(g))
        if " ".join(map(str, d.tolist())) != a:
            chk.disagreement("get_haplotype_dosage != model haplotypeDosage", {"genotype": g, "impl": d.tolist(), "model": a})
        truth = [sum(1 for h2 in g if h2 == h) if g.index(h) == i else 0 for i, h in enumerate(g)]
        if d.tolist() != truth:
            chk.violation("get_haplotype_dosage is not the multiplicity-at-first-occurrence vector",
                          {"genotype": g, "impl": d.tolist(), "expected": truth}, "C05/dosage")
        plines.append("prior.perms " + " ".join(map(str, d.tolist())))
    ans = drv.ask(plines)
    for g, a, line in zip(meta, ans, plines):
        d = np.array([int(x) for x in line.split()[1:]], dtype=np.int64)
        pi = math.exp(ln_equivalent_permutations(d))
        pm = float(C.parse_rat(a))
        if not C.close(pi, pm):
            chk.disagreement("ln_equivalent_permutations != model permsOfDosage", {"dosage": d.tolist(), "impl": pi, "model": pm})
    chk.extra["exhaustive_spaces"] = len(spaces)
    chk.extra["exhaustive"] = True
    # ------------------------------------------------------------------ per-sample / option plumbing of the programs (shared observer)
    if tier != "warm":
        from . import plumbing
        plumbing.run_plumbing(chk, C.rng(PROP + ":plumbing"), None, PROP, programs=("assemble", "call", "call-exact"), tier=tier)
    return chk.finish()
