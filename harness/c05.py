"""C05 — genotype priors are proper distributions and mutually consistent.

Correspondence: calling `log_genotype_prior`, `log_genotype_allele_prior`, assemble
`log_genotype_prior` (null and Dirichlet-multinomial), `ln_equivalent_permutations`,
`get_haplotype_dosage` vs the Lean model (`MCHap/Model/Prior.lean`), over completely enumerated
genotype spaces. Implementation oracles: the sum over the enumerated space, the exact conditional
built from the implementation's own genotype prior, assemble == call(flat), and an independent
Fraction evaluation of the Dirichlet-multinomial with dispersion f(1-F)/F.
"""
from __future__ import annotations

import itertools
import math
from fractions import Fraction

import numpy as np

from . import common as C

PROP = "C05"
MODULE = "MCHap.Properties.C05"
THEOREMS = [
    "MCHap.C05.compositions_spec",
    "MCHap.C05.countsOf_ofCounts",
    "MCHap.C05.dm_sum_one",
    "MCHap.C05.multinomial_sum_one",
    "MCHap.C05.callPrior_sum_one",
    "MCHap.C05.dmCounts_zero_of_zero_alpha",
    "MCHap.C05.dmOrdered_insert",
    "MCHap.C05.allele_conditional",
    "MCHap.C05.allelePrior_eq_urn",
    "MCHap.C05.allelePrior_flat_eq_urn",
    "MCHap.C05.allelePrior_F0",
    "MCHap.C05.dmCounts_eq_perms_mul_ordered",
    "MCHap.C05.assemblePrior_perm",
    "MCHap.C05.assemblePrior_zero",
    "MCHap.C05.assemblePrior_eq_callPrior_flat",
    "MCHap.C05.gamma_ratio_eq_rising",
    "MCHap.C05.gamma_factorial",
]
RULE = ("cases: every unordered genotype of completely enumerated spaces (ploidy 1..6 x 1..5 alleles in quick, more in thorough) "
        "x inbreeding {0, 0.01, 0.25, 0.5, 0.9} x frequencies {flat(None), flat array, skewed, with zero entries}; every allele position "
        "for the conditional prior; random larger (ploidy, alleles) spaces. Non-trivial: genotype with a repeated allele and >= 2 distinct "
        "alleles, under F > 0 or non-flat frequencies. Distinct by canonical request line.")

INBREEDING = [0.0, 0.01, 0.25, 0.5, 0.9]


def rising(a: Fraction, k: int) -> Fraction:
    out = Fraction(1)
    for i in range(k):
        out *= a + i
    return out


def exact_dm(g, n, F, freqs):
    """the documented prior, independently: multinomial (F = 0) / Dirichlet-multinomial with alpha = f (1 - F) / F"""
    p = len(g)
    fs = [Fraction(1, n)] * n if freqs is None else [Fraction(float(x)) for x in freqs]
    counts = [g.count(a) for a in range(n)]
    F = Fraction(float(F))
    coef = Fraction(math.factorial(p))
    for c in counts:
        coef /= math.factorial(c)
    if F == 0:
        out = coef
        for a, c in enumerate(counts):
            out *= fs[a] ** c
        return out
    alphas = [f * (1 - F) / F for f in fs]
    A = sum(alphas)
    out = coef / rising(A, p)
    for a, c in enumerate(counts):
        out *= rising(alphas[a], c)
    return out


def gen_freqs(r, n):
    kind = r.choice(["none", "flatarr", "skew", "zeros"])
    if kind == "none":
        return kind, None
    if kind == "flatarr":
        return kind, np.full(n, 1.0 / n)
    v = np.array([r.random() + 0.05 for _ in range(n)])
    if kind == "zeros" and n >= 2:
        for i in r.sample(range(n), r.randint(1, n - 1)):
            v[i] = 0.0
    return kind, v / v.sum()


def ftoks(freqs, n):
    return ["flat"] if freqs is None else [C.rat_str(x) for x in freqs]


def prob(x):
    """exp of a log-probability, with -inf -> 0 and nan kept"""
    x = float(x)
    if math.isnan(x):
        return math.nan
    return math.exp(x)


def run(tier, replay=None):
    from mchap.calling.prior import log_genotype_prior as call_prior, log_genotype_allele_prior as allele_prior
    from mchap.assemble.prior import log_genotype_prior as asm_prior
    from mchap.jitutils import ln_equivalent_permutations, get_haplotype_dosage

    chk = C.Check(PROP, tier, MODULE, THEOREMS, RULE, assumptions=[
        "lgamma / log / exp in float64 are compared at rel 1e-9 (sums at 1e-9 absolute), not proved",
        "frequency vectors are float64 and sum to one only up to rounding; the theorem is for exact sums",
    ])
    chk.prove()
    drv = C.Driver()
    r = C.rng(PROP)

    if tier == "warm":
        spaces = [(2, 2), (3, 2)]
    elif tier == "quick":
        spaces = [(p, n) for p in (1, 2, 3, 4, 6) for n in (1, 2, 3, 5)] + [(5, 4), (8, 3), (2, 12)]
    else:
        spaces = [(p, n) for p in range(1, 9) for n in range(1, 7)] + [(12, 3), (2, 40), (3, 20), (10, 4)]

    for (ploidy, n) in spaces:
        genos = list(itertools.combinations_with_replacement(range(n), ploidy))
        configs = []
        for F in INBREEDING:
            if tier == "warm" and F not in (0.0, 0.25):
                continue
            for _ in range(2 if tier != "thorough" else 3):
                configs.append((F, *gen_freqs(r, n)))
        for (F, kind, freqs) in configs:
            lines = []
            for g in genos:
                lines.append(" ".join(["prior.call", str(n), C.rat_str(F)] + ftoks(freqs, n) + [str(a) for a in g]))
            ans = drv.ask(lines)
            impl = {}
            total = 0.0
            for g, a, line in zip(genos, ans, lines):
                garr = np.array(g, dtype=np.int64)
                lp = call_prior(garr, n, inbreeding=F, frequencies=freqs)
                pi = prob(lp)
                impl[g] = pi
                total += pi
                pm = float(C.parse_rat(a))
                nontriv = len(set(g)) >= 2 and len(set(g)) < len(g) and (F > 0 or kind in ("skew", "zeros"))
                chk.count(f"call:F={F}"); chk.count(f"call:freq={kind}")
                chk.case(line, nontriv, sample={"request": line[:200], "impl": pi, "model": pm})
                case = {"genotype": list(g), "n_alleles": n, "inbreeding": F, "frequencies": None if freqs is None else freqs.tolist()}
                if not C.close(pi, pm):
                    chk.disagreement("calling log_genotype_prior != model callPrior", {**case, "impl": pi, "model": pm})
                truth = float(exact_dm(list(g), n, F, freqs))
                if not C.close(pi, truth):
                    chk.violation("genotype prior differs from the (Dirichlet-)multinomial with dispersion f(1-F)/F",
                                  {**case, "impl": pi, "expected": truth}, "C05/call_prior/formula")
                if kind == "zeros" and any(freqs[a] == 0 for a in g) and pi != 0.0:
                    chk.violation("genotype containing a zero-frequency allele has positive prior", {**case, "impl": pi},
                                  "C05/call_prior/zero-frequency")
            if not (abs(total - 1.0) <= 1e-9):     # a NaN total is a failure too
                chk.violation(f"genotype prior sums to {total!r} over all unordered genotypes",
                              {"ploidy": ploidy, "n_alleles": n, "inbreeding": F,
                               "frequencies": None if freqs is None else freqs.tolist(), "sum": total},
                              "C05/call_prior/sum")
            # ---- conditional prior for every (genotype, position): sub-sample positions in large spaces
            sub = genos if len(genos) <= 60 else r.sample(genos, 60)
            lines, meta = [], []
            for g in sub:
                for k in range(ploidy):
                    lines.append(" ".join(["prior.allele", str(n), C.rat_str(F)] + ftoks(freqs, n) + [str(k)] + [str(a) for a in g]))
                    meta.append((g, k))
            ans = drv.ask(lines)
            for (g, k), a, line in zip(meta, ans, lines):
                garr = np.array(g, dtype=np.int64)
                ci = prob(allele_prior(garr, k, n, inbreeding=F, frequencies=freqs))
                cm = float(C.parse_rat(a))
                chk.count("allele-conditional")
                chk.case(line, len(set(g)) < len(g) and F > 0)
                case = {"genotype": list(g), "position": k, "n_alleles": n, "inbreeding": F,
                        "frequencies": None if freqs is None else freqs.tolist()}
                if not C.close(ci, cm):
                    chk.disagreement("log_genotype_allele_prior != model allelePrior", {**case, "impl": ci, "model": cm})
                # exact conditional from the implementation's own genotype prior: pi_o(g) = P(g) / perms(g)
                def ordered(gg):
                    gs = tuple(sorted(gg))
                    perms = math.factorial(ploidy)
                    for a_ in set(gs):
                        perms //= math.factorial(gs.count(a_))
                    return impl[gs] / perms
                denom = 0.0
                for y in range(n):
                    gy = list(g); gy[k] = y
                    denom += ordered(gy)
                if denom > 0:
                    cond = ordered(g) / denom
                    if not C.close(ci, cond, rel=1e-8):
                        chk.violation("single-allele conditional prior is not the conditional of the genotype prior",
                                      {**case, "impl": ci, "expected": cond}, "C05/allele_prior/conditional")
            # ---- assemble prior (flat over U = n haplotypes) == call prior with flat frequencies
            if kind == "none":
                lines, meta = [], []
                for g in genos:
                    # a dosage vector as get_haplotype_dosage gives it: multiplicity at first occurrence, 0 elsewhere
                    gl = list(g); r.shuffle(gl)
                    dosage = [gl.count(x) if gl.index(x) == i else 0 for i, x in enumerate(gl)]
                    lines.append(" ".join(["prior.asm", str(n), C.rat_str(F)] + [str(d) for d in dosage]))
                    meta.append((g, dosage))
                ans = drv.ask(lines)
                for (g, dosage), a, line in zip(meta, ans, lines):
                    ai = prob(asm_prior(np.array(dosage, dtype=np.int8), math.log(n), inbreeding=F))
                    am = float(C.parse_rat(a))
                    chk.count("assemble-prior")
                    chk.case(line, len(set(g)) < len(g) and F > 0)
                    case = {"genotype": list(g), "dosage": dosage, "unique_haplotypes": n, "inbreeding": F}
                    if not C.close(ai, am):
                        chk.disagreement("assemble log_genotype_prior != model assemblePrior", {**case, "impl": ai, "model": am})
                    if not C.close(ai, impl[g]):
                        chk.violation("assemble prior != call prior with flat frequencies over all haplotypes",
                                      {**case, "assemble": ai, "call": impl[g]}, "C05/assemble_prior/flat-call")

    # ---------------- assemble prior over large haplotype spaces (many SNVs): values, not sums
    n_big = {"warm": 5, "quick": 400, "thorough": 4000}[tier]
    lines, meta = [], []
    for _ in range(n_big):
        bits = r.choice([1, 2, 5, 10, 20, 27, 30, 40, 50, 60])
        U = 2 ** bits if r.random() < 0.7 else 3 ** r.randint(1, 37)
        F = r.choice(INBREEDING + [0.999])
        ploidy = r.choice([2, 3, 4, 6, 8, 12])
        # random partition of the ploidy into doses (excess of large doses)
        doses, left = [], ploidy
        while left > 0:
            d = r.randint(1, left) if r.random() < 0.6 else 1
            doses.append(d); left -= d
        r.shuffle(doses)
        dosage = []
        for d in doses:
            dosage += [d] + [0] * (d - 1)
        lines.append(" ".join(["prior.asm", str(U), C.rat_str(F)] + [str(d) for d in dosage]))
        meta.append((U, F, ploidy, doses, dosage))
    ans = drv.ask(lines)
    for (U, F, ploidy, doses, dosage), a, line in zip(meta, ans, lines):
        logU = math.log(U)
        ai = prob(asm_prior(np.array(dosage, dtype=np.int8), logU, inbreeding=F))
        am = C.parse_rat(a)
        chk.count(f"assemble-prior:big:log2U~{int(math.log2(U)) // 10 * 10}")
        chk.case(line, max(doses) >= 3 and F > 0 and U > 2 ** 20)
        case = {"unique_haplotypes": U, "inbreeding": F, "dosage": dosage}
        lm = C.frac_log(am)
        li = math.log(ai) if ai > 0 else -math.inf
        if not C.close_log(li, lm, rel=1e-9):
            chk.disagreement("assemble log_genotype_prior != model assemblePrior (large haplotype space)", {**case, "impl_log": li, "model_log": lm})
        # the documented Dirichlet-multinomial with flat dispersion (1-F)/(F U), independently
        Ff = Fraction(float(F))
        coef = Fraction(math.factorial(ploidy))
        for d in doses:
            coef /= math.factorial(d)
        if Ff == 0:
            truth = coef / Fraction(U) ** ploidy
        else:
            A = (1 - Ff) / Ff
            al = A / U
            truth = coef / rising(A, ploidy)
            for d in doses:
                truth *= rising(al, d)
        lt = C.frac_log(truth)
        if not C.close_log(li, lt, rel=1e-9):
            chk.violation("assemble genotype prior differs from the Dirichlet-multinomial with flat dispersion over all haplotypes",
                          {**case, "impl_log": li, "expected_log": lt}, "C05/assemble_prior/formula")
        # ... and equals the call prior with flat frequencies over the same number of haplotypes
        g = []
        for i, d in enumerate(doses):
            g += [i] * d
        if U >= len(doses) and U < 2 ** 62:
            lc = float(call_prior(np.array(g, dtype=np.int64), U, inbreeding=F, frequencies=None))
            if not C.close_log(li, lc, rel=1e-9):
                chk.violation("assemble prior != call prior with flat frequencies over all haplotypes",
                              {**case, "assemble_log": li, "call_log": lc}, "C05/assemble_prior/flat-call")

    # ---------------- permutations count and dosage extraction
    lines, meta = [], []
    for _ in range({"warm": 5, "quick": 150, "thorough": 1500}[tier]):
        ploidy = r.choice([1, 2, 3, 4, 6, 8, 12])
        nb = r.randint(1, 4)
        pool = [[r.randrange(3) for _ in range(nb)] for _ in range(r.randint(1, ploidy))]
        g = [r.choice(pool) for _ in range(ploidy)]
        lines.append(" ".join(["prior.dosage", str(nb), str(ploidy)] + [str(a) for h in g for a in h]))
        meta.append(g)
    ans = drv.ask(lines)
    plines = []
    for g, a, line in zip(meta, ans, lines):
        garr = np.array(g, dtype=np.int8)
        d = np.zeros(len(g), dtype=np.int8)
        get_haplotype_dosage(d, garr)
        chk.count("dosage")
        chk.case(line, len({tuple(h) for h in g}) < len(g))
        if " ".join(map(str, d.tolist())) != a:
            chk.disagreement("get_haplotype_dosage != model haplotypeDosage", {"genotype": g, "impl": d.tolist(), "model": a})
        truth = [sum(1 for h2 in g if h2 == h) if g.index(h) == i else 0 for i, h in enumerate(g)]
        if d.tolist() != truth:
            chk.violation("get_haplotype_dosage is not the multiplicity-at-first-occurrence vector",
                          {"genotype": g, "impl": d.tolist(), "expected": truth}, "C05/dosage")
        plines.append("prior.perms " + " ".join(map(str, d.tolist())))
    ans = drv.ask(plines)
    for g, a, line in zip(meta, ans, plines):
        d = np.array([int(x) for x in line.split()[1:]], dtype=np.int64)
        pi = math.exp(ln_equivalent_permutations(d))
        pm = float(C.parse_rat(a))
        if not C.close(pi, pm):
            chk.disagreement("ln_equivalent_permutations != model permsOfDosage", {"dosage": d.tolist(), "impl": pi, "model": pm})
    chk.extra["exhaustive_spaces"] = len(spaces)
    chk.extra["exhaustive"] = True
    return chk.finish()
