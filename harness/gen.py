"""Structured generators shared by the numeric properties (C01, C02, C03, C04, C05, C09, C15)."""
from __future__ import annotations

import math

import numpy as np

from . import common as C

ERROR_RATES = [0.0024, 0.01, 0.05, 0.2]


def gen_n_alleles(r, n_base, multi=True):
    return [r.choice([2, 2, 2, 3, 4] if multi else [2]) for _ in range(n_base)]


def gen_haplotype(r, n_alleles):
    return [r.randrange(a) for a in n_alleles]


def gen_genotype(r, ploidy, n_alleles, dup=0.5):
    """ordered genotype with a deliberate excess of duplicated haplotypes"""
    n_distinct = ploidy if r.random() > dup else r.randint(1, max(1, ploidy - 1))
    pool = [gen_haplotype(r, n_alleles) for _ in range(n_distinct)]
    g = [list(r.choice(pool)) for _ in range(ploidy)]
    r.shuffle(g)
    return g


def gen_reads(r, n_alleles, n_reads, haps=None, gap=0.25, style=None, max_count=3, zero_counts=False):
    """float64 array (n_reads, n_base, max_alleles) in mchap's probabilistic encoding + counts.

    styles: 'encoded' (called allele 1-e, others e/(a-1), non-alleles 0 -- what as_probabilistic gives),
            'free' (arbitrary probabilities), 'hard' (0/1 calls: exercises zero likelihoods)
    """
    n_base = len(n_alleles)
    mx = max(n_alleles) if n_alleles else 1
    reads = np.zeros((n_reads, n_base, mx), dtype=np.float64)
    style = style or r.choice(["encoded", "encoded", "encoded", "free", "hard"])
    for i in range(n_reads):
        src = r.choice(haps) if haps else None
        e = r.choice(ERROR_RATES)
        for j, a in enumerate(n_alleles):
            if r.random() < gap:
                reads[i, j, :] = np.nan
                continue
            call = src[j] if (src is not None and r.random() > 0.1) else r.randrange(a)
            if style == "encoded":
                reads[i, j, :a] = e / (a - 1) if a > 1 else 1.0
                reads[i, j, call] = 1 - e
            elif style == "hard":
                reads[i, j, call] = 1.0
            else:
                v = [r.random() for _ in range(a)]
                s = sum(v)
                for k in range(a):
                    reads[i, j, k] = v[k] / s
    lo = 0 if zero_counts else 1
    counts = np.array([r.randint(lo, max_count) for _ in range(n_reads)], dtype=np.int64)
    return reads, counts


def reads_tokens(reads, counts):
    n_reads, n_base, n_nucl = reads.shape
    toks = [str(n_base), str(n_nucl), str(n_reads)]
    toks += [str(int(c)) for c in counts]
    toks += [C.cell_str(x) for x in reads.reshape(-1)]
    return toks


def genotype_tokens(g):
    toks = [str(len(g))]
    for h in g:
        toks += [str(int(a)) for a in h]
    return toks


def canon_genotype(g):
    return tuple(sorted(tuple(int(a) for a in h) for h in g))


def exact_lik(reads, counts, g):
    """independent exact likelihood (Fractions) straight from the property statement"""
    from fractions import Fraction
    n_reads, n_base, _ = reads.shape
    ploidy = len(g)
    total = Fraction(1)
    for i in range(n_reads):
        rp = Fraction(0)
        for h in g:
            p = Fraction(1)
            for j in range(n_base):
                v = reads[i, j, h[j]]
                if not math.isnan(v):
                    p *= Fraction(float(v))
            rp += p
        rp /= ploidy
        total *= rp ** int(counts[i])
    return total
