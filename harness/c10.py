"""C10 — samples are called independently; a pool equals the union of its reads.

Proof side: `MCHap.Properties.C10` over `Model/Programs.lean` (per-sample loop threading the process-wide random
state, pooling = concatenation before de-duplication, assemble's population haplotype list and labelling).

Correspondence (model vs /repo, observed inside in-process program runs by wrapping module-level names):
  * `encode_sample_reads`: for every (locus, sample/pool) the reads of every pool member are re-extracted, encoded and
    numbered, the driver computes `encodeSample` (first-occurrence order, counts, RCOUNT) and the result is compared
    with `data.read_dists / read_counts / RCOUNT` of the program;
  * `call_posterior_haplotypes` and `_genotype_as_alleles` of assemble: inputs (per-sample haplotype weights and
    occurrence probabilities as exact rationals, threshold) are replayed through the model; the haplotype list (ties in
    weight compared as sets), `ref_observed` and the allele labels must agree.
Oracles (the property statement on what the programs print):
  * call / call-exact: the FORMAT column of every sample is textually identical alone, in every subset and in every
    order of `--bam`; the columns follow the order of the BAM arguments;
  * assemble: per-sample statistics (GQ, SQ, DP, RCOUNT, RCALLS, MEC, MECP, GPM, SPM, MCI) textually identical; the called
    haplotype *sequences* of a sample with fewer samples present are a sub-multiset of those with more samples present
    (`.` may become named, never the reverse, never another sequence); ALT sequences and REF-called grow monotonically;
    permuting the BAMs leaves the ALT set unchanged;
  * pools (`--sample-pool`, incl. a sample in several pools and a pool of one) vs physically merged BAMs carrying the
    pool's name: identical multiset of encoded reads with counts for every locus (exact), identical columns.
  * optional arrays (`--report AFP AOP ACP GP GL`, none / all / a random subset per dataset): call / call-exact columns are
    compared as text; for assemble every per-allele value (AFP, AOP, ACP) and per-genotype value (GP, GL) of a sample is
    compared keyed by allele SEQUENCES (allele numbers differ between runs), a genotype with the reference allele being
    skipped for GP when the reference is masked in one of the two runs only;
  * the same selections through one multi-sample BAM: all samples, a subset in another order chosen by a
    `sample<TAB>path` list file, and the samples named by read-group ID (`--read-group-field ID`, ploidy file keyed by ID);
  * datasets with a (sample, locus) pair without reads ("nodepth"), ploidies 2..8 incl. odd ones, a pool that carries the
    name of one of its members;
  * per-sample parameter plumbing (harness/plumbing.py): with per-sample --ploidy / --inbreeding / --mcmc-temperatures /
    --gamete-* files (shuffled lines, a stranger, pairwise different values, two samples of equal ploidy) every model fit
    and every likelihood / posterior array call of assemble, call, call-exact and call-pedigree can be attributed to a
    sample whose own parameters and own encoded reads it received.
Float summation order when the same reads arrive in another order is not modelled: a difference of one unit in the last
printed digit with identical read multisets is counted (`pool:float-order-tolerated`), anything larger is reported.
"""
from __future__ import annotations

import itertools
import math
import os
import shutil
import tempfile

import numpy as np

from . import common as C
from . import plumbing
from . import synth

PROP = "C10"
MODULE = "MCHap.Properties.C10"
EXE = "driver_prog"
THEOREMS = [
    "MCHap.C10.callRecord_eq_map",
    "MCHap.C10.column_independent",
    "MCHap.C10.subset_columns",
    "MCHap.C10.perm_columns",
    "MCHap.C10.column_index_seed_partial",
    "MCHap.C10.column_seed_once_partial",
    "MCHap.C10.dedupCounts_perm",
    "MCHap.C10.dedupCounts_expand",
    "MCHap.C10.pool_eq_union",
    "MCHap.C10.pool_lik_eq_union",
    "MCHap.C10.callPosteriorHaplotypes_spec",
    "MCHap.C10.haplotypes_monotone",
    "MCHap.C10.dots_only_become_named",
]
RULE = ("cases: synthetic datasets (3-4 samples, ploidy 2..8 incl. odd, 4-5 loci incl. one without SNVs and one with >= 2, a "
        "(sample, locus) without reads, --report none / all / random subset of AFP AOP ACP GP GL) x program "
        "(call, call-exact, assemble) x selection of samples (every non-empty subset; several orders; one multi-sample BAM; a "
        "sample<TAB>path list file on it; --read-group-field ID) ; pool files (pool of two, "
        "pool of all, pool of one, a sample in several pools, a pool named like a member) vs merged BAMs; per-sample parameter "
        "files x all four programs (plumbing: one case per locus and run); every (locus, sample) of every run gives one "
        "encode_sample_reads comparison and every assemble locus one call_posterior_haplotypes / labelling comparison. "
        "Non-trivial: a run with >= 2 samples (columns), a pool with >= 2 members and a duplicated read (pools), a locus "
        "with >= 1 ALT haplotype (assemble model). Distinct by canonical case description.")

MCMC0 = ["--mcmc-steps", "300", "--mcmc-burn", "100"]
ASM_STATS = ["GQ", "SQ", "DP", "RCOUNT", "RCALLS", "MEC", "MECP", "GPM", "SPM", "MCI"]


# --------------------------------------------------------------------------------------
# observation of the programs' internals (in-process, module-level names wrapped)
# --------------------------------------------------------------------------------------

class Observer:
    """wraps `encode_sample_reads`, `call_posterior_haplotypes` and `_genotype_as_alleles` while a program runs"""

    def __init__(self):
        self.reads = []      # per locus: dict(locus, samples -> (rows, counts, rcount), members -> per sample list of row lists)
        self.haps = []       # per assemble locus: (threshold, [per posterior (haps, weights, occ)], haplotypes, ref_observed, n_base)
        self.gts = []        # (genotype, labels, result)
        self.active = False

    def install(self):
        from mchap.application import baseclass, assemble
        from mchap.io import extract_read_variants, encode_read_alleles, encode_read_distributions
        import mchap.io.vcf.formatfields as FORMAT
        obs = self
        self._orig = (baseclass.program.encode_sample_reads, assemble.call_posterior_haplotypes,
                      assemble._genotype_as_alleles)
        orig_encode, orig_cph, orig_gaa = self._orig

        def encode_sample_reads(prog, data):
            out = orig_encode(prog, data)
            if obs.active:
                import pysam
                rec = {"locus": data.locus.name, "samples": {}, "members": {}, "arrays": {},
                       "ploidy": dict(data.sample_ploidy), "inbreeding": dict(data.sample_inbreeding or {}),
                       "order": list(data.samples), "formatfields": [f.id for f in data.formatfields]}
                if hasattr(data.locus, "frequencies") and hasattr(data.locus, "alts"):
                    rec["haplotypes"] = data.locus.encode_haplotypes()
                    rec["frequencies"] = np.array(data.locus.frequencies, dtype=float)
                    rec["mask_ref"] = bool(data.locus.mask_reference_allele)
                else:
                    rec["n_alleles"] = [int(x) for x in data.locus.count_alleles()]
                for s in data.samples:
                    rec["samples"][s] = ([r.tobytes() for r in data.read_dists[s]],
                                         [int(c) for c in data.read_counts[s]],
                                         int(data.sampledata[FORMAT.RCOUNT][s]))
                    rec["arrays"][s] = (np.array(data.read_dists[s]), np.array(data.read_counts[s]))
                    mem = []
                    for name, path in data.sample_bams[s]:
                        with pysam.AlignmentFile(path, reference_filename=prog.ref) as af:
                            chars, quals = extract_read_variants(
                                data.locus, alignment_file=af, samples=name, id=prog.read_group_field,
                                min_quality=prog.mapping_quality, skip_duplicates=prog.skip_duplicates,
                                skip_qcfail=prog.skip_qcfail, skip_supplementary=prog.skip_supplementary)[name]
                        calls = encode_read_alleles(data.locus, chars)
                        dists = encode_read_distributions(
                            data.locus, calls, None if prog.ignore_base_phred_scores else quals,
                            error_rate=prog.base_error_rate)
                        mem.append([d.tobytes() for d in dists])
                    rec["members"][s] = mem
                obs.reads.append(rec)
            return out

        def call_posterior_haplotypes(posteriors, threshold=0.01):
            res = orig_cph(posteriors, threshold=threshold)
            if obs.active:
                if obs.reads:
                    obs.reads[-1]["called_haplotypes"] = np.array(res[0])
                stats = []
                for p in posteriors:
                    h, w, o = p.allele_frequencies(dosage=True)
                    stats.append(([tuple(int(x) for x in row) for row in h], [float(x) for x in w], [float(x) for x in o]))
                obs.haps.append((float(threshold), stats, [tuple(int(x) for x in row) for row in res[0]], bool(res[1]),
                                 int(posteriors[0].genotypes.shape[-1])))
            return res

        def _genotype_as_alleles(genotype, labels):
            res = orig_gaa(genotype, labels)
            if obs.active:
                lab = {tuple(int(x) for x in np.frombuffer(k, dtype=np.int8)): int(v) for k, v in labels.items()}
                obs.gts.append(([tuple(int(x) for x in row) for row in genotype], lab, [int(x) for x in res]))
            return res

        baseclass.program.encode_sample_reads = encode_sample_reads
        assemble.call_posterior_haplotypes = call_posterior_haplotypes
        assemble._genotype_as_alleles = _genotype_as_alleles

    def uninstall(self):
        from mchap.application import baseclass, assemble
        (baseclass.program.encode_sample_reads, assemble.call_posterior_haplotypes,
         assemble._genotype_as_alleles) = self._orig

    def take(self):
        out = (self.reads, self.haps, self.gts)
        self.reads, self.haps, self.gts = [], [], []
        return out


def run_prog(obs, argv, what):
    obs.active = True
    try:
        out, code, err = synth.run_program(argv)
    finally:
        obs.active = False
    reads, haps, gts = obs.take()
    if code != 0:
        raise C.ProgramAbort(f"{what}: exit {code}: {err[:500]}")
    hdr, recs = synth.parse_vcf_text(out)
    return {"records": recs, "reads": reads, "haps": haps, "gts": gts}


# --------------------------------------------------------------------------------------
# model correspondence
# --------------------------------------------------------------------------------------

def hap_tok(h):
    return ",".join(str(x) for x in h) if len(h) else "-"


def queue_reads_cases(pending, run, what):
    """one driver request per (locus, sample): the members' reads as ids -> expected unique rows and counts"""
    for rec in run["reads"]:
        for s, (rows, counts, rcount) in rec["samples"].items():
            mem = rec["members"][s]
            ids = {}
            seq = []
            for m in mem:
                seq.append([ids.setdefault(b, len(ids)) for b in m])
            req = f"pool.dedup {len(mem)} " + " ".join(str(len(m)) for m in seq) + " " + " ".join(
                str(i) for m in seq for i in m)
            impl_rows = [ids.get(b, -1) for b in rows]
            impl = f"{rcount} | " + " ".join(f"{i}:{c}" for i, c in zip(impl_rows, counts))
            n_total = sum(len(m) for m in seq)
            pending.append(("reads", req.strip(), impl.strip(), {
                "what": what, "locus": rec["locus"], "sample": s, "members": len(mem), "reads": n_total,
                "nontrivial": len(mem) >= 2 and 2 <= len(ids) < n_total}))


def queue_assemble_cases(pending, run, what):
    for thr, stats, haplotypes, ref_obs, n_base in run["haps"]:
        toks = [C.rat_str(thr), str(n_base), str(len(stats))]
        for h, w, o in stats:
            toks.append(str(len(h)))
            for hh, ww, oo in zip(h, w, o):
                toks += [hap_tok(hh), C.rat_str(ww), C.rat_str(oo)]
        pending.append(("haps", "asm.haps " + " ".join(toks), (haplotypes, ref_obs), {
            "what": what, "n_posteriors": len(stats), "n_base": n_base, "nontrivial": len(haplotypes) >= 2}))
    for genotype, lab, res in run["gts"]:
        n_base = len(genotype[0]) if genotype else 0
        n = max(lab.values()) + 1 if lab else 1
        inv = {v: k for k, v in lab.items()}
        ref = tuple([0] * n_base)
        haps = [inv.get(i, ref) for i in range(n)]
        ref_called = 1 if lab.get(ref, -1) == 0 else 0
        if 0 not in inv:
            haps[0] = ref
        req = (f"asm.gt {ref_called} {len(haps)} " + " ".join(hap_tok(h) for h in haps) + f" {len(genotype)} "
               + " ".join(hap_tok(h) for h in genotype))
        impl = " ".join("." if a < 0 else str(a) for a in res)
        pending.append(("gt", req, impl, {"what": what, "nontrivial": any(a < 0 for a in res) or len(haps) > 1}))


def flush_model(chk, drv, pending):
    if not pending:
        return
    ans = drv.ask([p[1] for p in pending])
    for (kind, req, impl, meta), a in zip(pending, ans):
        chk.count(f"model:{kind}")
        sample = None
        if meta.get("nontrivial"):
            seen = chk.__dict__.setdefault("_sampled", set())
            if kind not in seen:
                seen.add(kind)
                sample = {"request": req[:400], "impl": str(impl)[:300], "model": a[:300]}
        chk.case(req, bool(meta.get("nontrivial")), sample=sample)
        if kind in ("reads", "gt"):
            if a.strip() != impl.strip():      # (a sample without reads: both sides end in an empty list)
                chk.disagreement({"reads": "encode_sample_reads (pool concatenation + unique_counts) != encodeSample",
                                  "gt": "_genotype_as_alleles != genotypeAsAlleles"}[kind],
                                 {**meta, "request": req[:2000], "impl": impl, "model": a})
            continue
        # haps: "<ref> | <hap> <weight> ..."
        haplotypes, ref_obs = impl
        m_ref, _, rest = a.partition("|")
        toks = rest.split()
        m_haps = [tuple(int(x) for x in t.split(",")) if t != "-" else () for t in toks[0::2]]
        m_w = [C.parse_rat(t) for t in toks[1::2]]
        wmap = dict(zip(m_haps, m_w))
        i_alts = list(haplotypes[1:])
        ok = (m_ref.strip() == ("1" if ref_obs else "0")) and sorted(m_haps) == sorted(i_alts) \
            and all(x == 0 for x in haplotypes[0])
        if ok:
            # same order up to ties in the summed weight (np.argsort tie order is not part of the property)
            for x, y in zip(i_alts, i_alts[1:]):
                if float(wmap[x]) < float(wmap[y]) - 1e-9:
                    ok = False
            if i_alts != m_haps:
                chk.count("model:haps-tie-order-differs")
        if not ok:
            chk.disagreement("call_posterior_haplotypes != callPosteriorHaplotypes",
                             {**meta, "request": req[:2000], "impl": [haplotypes, ref_obs], "model": a})
    pending.clear()


# --------------------------------------------------------------------------------------
# oracles on the printed records
# --------------------------------------------------------------------------------------

def columns(run):
    """locus id -> sample -> raw FORMAT column dict"""
    out = {}
    for rec in run["records"]:
        out[rec["ID"]] = {n: s for n, s in zip(rec["sample_names"], rec["samples"])}
    return out


def col_text(rec, sample_dict):
    return ":".join(sample_dict.get(k, "") for k in rec["FORMAT"])


def gt_seqs(rec, sample_dict):
    """sorted multiset of called haplotype sequences of a sample ('.' for unknown)"""
    alleles = [rec["REF"]] + rec["ALT"]
    gt = sample_dict["GT"].replace("|", "/").split("/")
    return sorted("." if a == "." else alleles[int(a)] for a in gt)


def sub_multiset(a, b):
    b = list(b)
    for x in a:
        if x in b:
            b.remove(x)
        else:
            return False
    return True


def refmasked(rec):
    return "REFMASKED" in rec["INFO"]


R_FIELDS = ["AFP", "AOP", "ACP"]     # one value per allele (REF first)
G_FIELDS = ["GP", "GL"]              # one value per unordered genotype, VCF order
_GT_ORDER = {}


def vcf_genotype_order(n_alleles, ploidy):
    """the unordered genotypes over `n_alleles` alleles as sorted allele tuples, in VCF order"""
    key = (n_alleles, ploidy)
    if key not in _GT_ORDER:
        gts = list(itertools.combinations_with_replacement(range(n_alleles), ploidy))
        gts.sort(key=genotype_index)
        _GT_ORDER[key] = gts
    return _GT_ORDER[key]


def keyed_fields(rec, sd):
    """the optional per-allele / per-genotype FORMAT arrays of one sample keyed by allele SEQUENCES (allele numbers are
    not comparable between runs of assemble); a field of unexpected length maps to None"""
    alleles = [rec["REF"]] + rec["ALT"]
    out = {}
    for k in R_FIELDS:
        if k in sd and sd[k] not in (".", ""):
            vals = sd[k].split(",")
            out[k] = dict(zip(alleles, vals)) if len(vals) == len(alleles) else None
    ploidy = len(sd.get("GT", "").replace("|", "/").split("/"))
    for k in G_FIELDS:
        if k in sd and sd[k] not in (".", ""):
            vals = sd[k].split(",")
            if math.comb(len(alleles) + ploidy - 1, ploidy) > 200000:
                continue
            gts = vcf_genotype_order(len(alleles), ploidy)
            out[k] = ({tuple(sorted(alleles[a] for a in g)): v for g, v in zip(gts, vals)}
                      if len(vals) == len(gts) else None)
    return out


def keyed_text(rec, sd):
    """canonical text of `keyed_fields` (sorted by sequence) for comparisons up to the last printed digit"""
    parts = []
    for k, d in sorted(keyed_fields(rec, sd).items()):
        if d is None:
            parts.append(f"{k}=?")
            continue
        items = sorted(("/".join(key) if isinstance(key, tuple) else key, v) for key, v in d.items())
        parts.append(f"{k}=" + ",".join(f"{a}:{v}" for a, v in items))
    return ":".join(parts)


def close_text(a, b):
    """are two column texts equal up to one unit in the last printed digit of each numeric field?"""
    fa, fb = a.replace(",", ":").split(":"), b.replace(",", ":").split(":")
    if len(fa) != len(fb):
        return False
    for x, y in zip(fa, fb):
        if x == y:
            continue
        try:
            fx, fy = float(x), float(y)
        except ValueError:
            return False
        digits = max(len(x.partition(".")[2]), len(y.partition(".")[2]))
        if not (abs(fx - fy) <= 10 ** (-digits) * 1.0000001):
            return False
    return True


def compare_call_columns(chk, prog, base, other, sel, tag):
    """call / call-exact: every sample of `other` has the column it has in `base`"""
    bcols = {rec["ID"]: rec for rec in base["records"]}
    for rec in other["records"]:
        if rec["sample_names"] != sel:
            chk.violation(f"{prog}: the sample columns {rec['sample_names']} do not follow the BAM arguments {sel}",
                          {**tag, "locus": rec["ID"]}, "C10/columns/order")
            return
        b = bcols[rec["ID"]]
        bmap = dict(zip(b["sample_names"], b["samples"]))
        if (rec["REF"], rec["ALT"]) != (b["REF"], b["ALT"]):
            chk.violation(f"{prog}: REF/ALT of a record depend on the samples analysed", {**tag, "locus": rec["ID"]},
                          "C10/call/alleles")
        for name, sd in zip(rec["sample_names"], rec["samples"]):
            t1, t0 = col_text(rec, sd), col_text(b, bmap[name])
            if t1 != t0:
                chk.violation(f"{prog}: the column of sample {name} at {rec['ID']} differs between samples {sel} and all samples",
                              {**tag, "locus": rec["ID"], "sample": name, "subset": t1, "all": t0}, f"C10/{prog}/column")


def compare_assemble(chk, small, big, sel_small, sel_big, tag, permutation=False):
    """assemble: `small` analyses a sub-list (or a permutation) of the samples of `big`"""
    bmap = {rec["ID"]: rec for rec in big["records"]}
    for rec in small["records"]:
        if rec["sample_names"] != sel_small:
            chk.violation(f"assemble: the sample columns {rec['sample_names']} do not follow the BAM arguments {sel_small}",
                          {**tag, "locus": rec["ID"]}, "C10/columns/order")
            return
        b = bmap[rec["ID"]]
        bs = dict(zip(b["sample_names"], b["samples"]))
        case = {**tag, "locus": rec["ID"], "small": sel_small, "big": sel_big}
        if not set(rec["ALT"]) <= set(b["ALT"]):
            chk.violation("assemble: an ALT haplotype disappears when samples are added",
                          {**case, "alt_small": rec["ALT"], "alt_big": b["ALT"]}, "C10/assemble/alt-monotone")
        if permutation and set(rec["ALT"]) != set(b["ALT"]):
            chk.violation("assemble: the set of ALT haplotypes depends on the order of the BAM arguments",
                          {**case, "alt_small": rec["ALT"], "alt_big": b["ALT"]}, "C10/assemble/alt-set")
        if permutation and rec["ALT"] != b["ALT"]:
            chk.count("assemble:alt-order-differs-under-permutation")
        if refmasked(b) and not refmasked(rec):
            chk.violation("assemble: the reference is called with fewer samples but masked with more",
                          case, "C10/assemble/ref-monotone")
        for name, sd in zip(rec["sample_names"], rec["samples"]):
            for k in ASM_STATS:
                if k in sd and sd.get(k) != bs[name].get(k):
                    chk.violation(f"assemble: {k} of sample {name} at {rec['ID']} depends on the other samples",
                                  {**case, "sample": name, "field": k, "small": sd.get(k), "big": bs[name].get(k)},
                                  "C10/assemble/stat")
            k1, k2 = keyed_fields(rec, sd), keyed_fields(b, bs[name])
            for k in R_FIELDS + G_FIELDS:
                if k not in k1 and k not in k2:
                    continue
                if k1.get(k) is None or k2.get(k) is None:
                    chk.count(f"assemble:{k}-unexpected-length-or-missing")
                    continue
                chk.count(f"assemble:{k}-compared-by-sequence")
                for key, v1 in k1[k].items():
                    if key not in k2[k]:
                        continue
                    if k == "GP" and refmasked(rec) != refmasked(b) and rec["REF"] in key:
                        continue     # a genotype with the reference allele has no probability while the reference is masked
                    if v1 != k2[k][key]:
                        chk.violation(f"assemble: {k} of sample {name} at {rec['ID']} for "
                                      f"{'genotype' if isinstance(key, tuple) else 'allele'} {key} depends on the other samples",
                                      {**case, "sample": name, "field": k, "key": key, "small": v1, "big": k2[k][key]},
                                      "C10/assemble/array-field")
                        break
            s1, s2 = gt_seqs(rec, sd), gt_seqs(b, bs[name])
            named1 = [x for x in s1 if x != "."]
            named2 = [x for x in s2 if x != "."]
            if len(s1) != len(s2) or not sub_multiset(named1, named2):
                chk.violation(f"assemble: called haplotype sequences of sample {name} at {rec['ID']} change with the other samples "
                              "(other than '.' becoming named)",
                              {**case, "sample": name, "small": s1, "big": s2}, "C10/assemble/sequences")
            elif permutation and s1 != s2:
                chk.violation(f"assemble: called haplotype sequences of sample {name} at {rec['ID']} depend on the BAM order",
                              {**case, "sample": name, "a": s1, "b": s2}, "C10/assemble/sequences")
            elif s1 != s2:
                chk.count("assemble:dot-became-named")


def reads_multisets(run):
    """(locus, sample) -> multiset of encoded reads {row bytes: count}, RCOUNT"""
    out = {}
    for rec in run["reads"]:
        for s, (rows, counts, rcount) in rec["samples"].items():
            d = {}
            for b, c in zip(rows, counts):
                d[b] = d.get(b, 0) + c
            out[(rec["locus"], s)] = (d, rcount)
    return out


def genotype_index(alleles):
    """VCF order index of a sorted genotype (combinatorial number system, cf. C11)"""
    return sum(math.comb(a + i, i + 1) for i, a in enumerate(sorted(alleles)))


def exact_mode_tie(pooled, merged, locus, sample, gt1, gt2):
    """call-exact only: do the two reported genotypes have the same posterior probability (to 1e-9) and is that the
    maximum, for the reads in the pooled order AND in the merged order?  Then the reported mode is decided by the last
    bits of a float sum over the reads, i.e. by their order -- the runtime part of this property."""
    from mchap.calling.exact import genotype_likelihoods, genotype_posteriors
    try:
        g1 = [int(x) for x in gt1.replace("|", "/").split("/")]
        g2 = [int(x) for x in gt2.replace("|", "/").split("/")]
    except ValueError:
        return None
    out = []
    for run in (pooled, merged):
        rec = next((x for x in run["reads"] if x["locus"] == locus and "haplotypes" in x), None)
        if rec is None or sample not in rec["arrays"]:
            return None
        d, c = rec["arrays"][sample]
        haps = rec["haplotypes"]
        ploidy = rec["ploidy"][sample]
        llks = genotype_likelihoods(reads=d, read_counts=c, haplotypes=haps, ploidy=ploidy)
        post = genotype_posteriors(log_likelihoods=llks, ploidy=ploidy, n_alleles=len(haps),
                                   inbreeding=rec["inbreeding"][sample], frequencies=rec["frequencies"])
        p1, p2, top = float(post[genotype_index(g1)]), float(post[genotype_index(g2)]), float(np.nanmax(post))
        out.append((p1, p2, top))
        if not (abs(p1 - p2) <= 1e-9 * top and top - max(p1, p2) <= 1e-9 * top):
            return {"tie": False, "posteriors": out}
    return {"tie": True, "posteriors": out}


def compare_pool_vs_merged(chk, prog, pooled, merged, pools, tag):
    pm, mm = reads_multisets(pooled), reads_multisets(merged)
    same_reads = {}
    for key in pm:
        ok = key in mm and pm[key] == mm[key]
        same_reads[key] = ok
        chk.count("pool:reads-compared")
        if not ok:
            chk.violation(f"{prog}: the de-duplicated reads (with counts) of pool {key[1]} at {key[0]} differ from those of the merged sample",
                          {**tag, "locus": key[0], "pool": key[1],
                           "pool_n": (sum(pm[key][0].values()), pm[key][1]),
                           "merged_n": (sum(mm[key][0].values()), mm[key][1]) if key in mm else None},
                          "C10/pool/reads")
    mrec = {rec["ID"]: rec for rec in merged["records"]}
    for rec in pooled["records"]:
        m = mrec[rec["ID"]]
        if rec["sample_names"] != pools or m["sample_names"] != pools:
            chk.violation(f"{prog}: pool columns {rec['sample_names']} / merged columns {m['sample_names']} are not {pools}",
                          {**tag, "locus": rec["ID"]}, "C10/columns/order")
            return
        if prog.startswith("assemble") and (rec["ALT"], refmasked(rec)) != (m["ALT"], refmasked(m)):
            if set(rec["ALT"]) != set(m["ALT"]) or refmasked(rec) != refmasked(m):
                chk.violation("assemble: pooled and merged runs list different haplotypes",
                              {**tag, "locus": rec["ID"], "pool": rec["ALT"], "merged": m["ALT"]}, "C10/pool/haplotypes")
            else:
                chk.count("pool:alt-order-differs")
        for name, sd, md in zip(pools, rec["samples"], m["samples"]):
            if prog.startswith("assemble"):
                t1 = ":".join(sd.get(k, "") for k in ASM_STATS) + ":" + ",".join(gt_seqs(rec, sd))
                t2 = ":".join(md.get(k, "") for k in ASM_STATS) + ":" + ",".join(gt_seqs(m, md))
                if set(rec["ALT"]) == set(m["ALT"]) and refmasked(rec) == refmasked(m):
                    t1, t2 = t1 + ":" + keyed_text(rec, sd), t2 + ":" + keyed_text(m, md)
            else:
                t1, t2 = col_text(rec, sd), col_text(m, md)
            chk.count("pool:columns-compared")
            if t1 == t2:
                continue
            case = {**tag, "locus": rec["ID"], "pool": name, "pooled": t1, "merged": t2,
                    "reads_identical_as_multisets": same_reads.get((rec["ID"], name))}
            tie = None
            if prog == "call-exact" and same_reads.get((rec["ID"], name)) and sd.get("GT") != md.get("GT") \
                    and sd.get("GPM") == md.get("GPM"):
                tie = exact_mode_tie(pooled, merged, rec["ID"], name, sd["GT"], md["GT"])
                case["tie_analysis"] = tie
            if tie and tie.get("tie"):
                chk.count("pool:exact-mode-tie")
                chk.notes.append(f"call-exact {rec['ID']} {name}: pooled reports {sd['GT']}, merged {md['GT']}; both genotypes have the "
                                 f"same maximal posterior probability (pooled order, merged order: {tie['posteriors']}) and the read "
                                 "multisets are identical: the reported mode is decided by float summation order (named runtime part)")
            elif same_reads.get((rec["ID"], name)) and close_text(t1, t2):
                chk.count("pool:float-order-tolerated")
                chk.notes.append(f"{prog} {rec['ID']} {name}: pooled / merged columns differ by one unit in the last printed digit "
                                 f"with identical read multisets (order of the reads differs): {t1} vs {t2}")
            else:
                chk.violation(f"{prog}: the column of pool {name} at {rec['ID']} differs from the column of the physically merged sample",
                              case, "C10/pool/column")


# --------------------------------------------------------------------------------------

def selections(r, samples, tier):
    """lists of sample names: every non-empty subset in file order + some / all other orders"""
    n = len(samples)
    subsets = [list(c) for k in range(1, n + 1) for c in itertools.combinations(samples, k)]
    out = [(s, False) for s in subsets if len(s) < n]
    perms = [list(p) for k in range(2, n + 1) for c in itertools.combinations(samples, k)
             for p in itertools.permutations(c) if list(p) != list(c)]
    if tier == "thorough" and n <= 3:
        chosen = perms
    else:
        r.shuffle(perms)
        full = [p for p in perms if len(p) == n][: 2 if tier == "quick" else 6]
        part = [p for p in perms if len(p) < n][: 2 if tier == "quick" else 8]
        chosen = full + part
    out += [(p, True) for p in chosen]
    return out


def run(tier, replay=None):
    chk = C.Check(PROP, tier, MODULE, THEOREMS, RULE, exe=EXE, assumptions=[
        "partial: float summation order when the same reads reach the sampler in another order (pool = concatenation, merged "
        "BAM = coordinate order) is not modelled; the check shows identical read multisets and reports any column difference "
        "larger than one unit in the last printed digit",
        "the per-sample computation is an abstract deterministic function of (parameters, de-duplicated reads, seeded generator "
        "states); that it reads nothing else (other samples, position in the loop) is observed by the subset / order runs",
        "the order of equally supported ALT alleles (np.argsort ties, float sums over samples in another order) is not part of "
        "the property; ties are compared as sets",
        "a pool whose members share read names is outside the comparison with a merged BAM (mates are paired by name within a sample)",
    ])
    chk.prove()
    chk.require("dataset:mcmc-seed=0", "a legal seed that must seed every sample's chains like any other")
    chk.require("dataset:uncallable-record(NOA)", "the missing calls of such a record depend on the sample's own ploidy only")
    drv = C.Driver(EXE)
    r = C.rng(PROP)
    work = tempfile.mkdtemp(prefix="verif-c10-")
    obs = Observer()
    obs.install()
    pending = []
    try:
        # per-sample parameter plumbing of all four programs (per-sample --ploidy / --inbreeding / --mcmc-temperatures /
        # --gamete-* files, --report GL GP AFP): every model fit and array function gets the sample's own values and reads
        plumbing.run_plumbing(chk, C.rng(PROP + ":plumbing"), work, PROP, tier=tier, obs=obs)
        n_datasets = {"warm": 1, "quick": 3, "thorough": 8}[tier]
        for d in range(n_datasets):
            n_samples = 3 if d % 2 == 0 else 4
            # dataset 1: a (sample, locus) pair without any read; later ones: two read-level features (+ sometimes no-depth)
            # dataset 0: a locus over which NO sample has a read, samples of equal ploidy with different inbreeding coefficients (given in
            # a per-sample file, lines in another order): what is computed for a read-less sample still is that sample's own
            feats = frozenset({"nodepth_all"}) if d == 0 else frozenset({"nodepth"}) if d == 1 else frozenset(
                r.sample(["mates", "indels", "clips", "lowqual"], 2) + (["nodepth"] if r.random() < 0.4 else []))
            # assemble is run twice: default reporting threshold, and a high one (many '.' alleles when a sample is alone)
            hi_thr = ["--haplotype-posterior-threshold", str(r.choice([0.5, 0.8, 0.95]))]
            # ploidies: 2/4, then odd and high ones
            ploidies = (2, 4) if d == 0 else (3, 6, 2, 5) if d == 1 else r.choice([(2, 5, 8), (4, 7, 2), (3, 6, 2), (5, 2, 6)])
            ds = synth.make_dataset(r, os.path.join(work, f"ds{d}"), n_samples=n_samples, n_loci=4 if d == 0 else 5,
                                    ploidies=ploidies, max_snvs=4, depth=(5, 16), contig_len=700, features=feats)
            # the second dataset runs with --mcmc-seed 0: a legal seed (0 .. 2^32-1) that a truthiness test would read as
            # "no seed given", leaving every run unseeded so that a sample's calls depend on what was drawn before it
            inb_args = []
            if d == 0:
                vals = ["0.0", "0.4", "0.15", "0.6"]
                inb_file = synth.write_text(os.path.join(work, f"ds{d}.inbreeding.txt"),
                                            "".join(f"{s_}\t{vals[i_ % 4]}\n" for i_, s_ in reversed(list(enumerate(ds.samples)))))
                inb_args = ["--inbreeding", inb_file]
                chk.count("dataset:per-sample-inbreeding-file+locus-without-reads-in-any-sample")
            seed = ["--mcmc-seed", "0" if d == 1 else str(r.randint(1, 10 ** 6))]
            chk.count("dataset:mcmc-seed=" + ("0" if d == 1 else "random"))
            MCMC = MCMC0 if d == 0 else ["--mcmc-steps", "200", "--mcmc-burn", "100"]      # (higher ploidies: shorter chains)
            # optional FORMAT / INFO arrays: none (call-exact then takes its streaming path), all, a random subset
            optional = ["AFP", "AOP", "ACP", "GP", "GL"]
            report = [] if d == 0 else optional if d == 1 else sorted(set(r.sample(optional, r.randint(1, 3)) + [r.choice(["GP", "GL"])]))
            report_args = ["--report", *report] if report else []
            tag0 = {"dataset": d, "n_samples": n_samples, "features": sorted(feats), "report": report,
                    "ploidy": dict(ds.ploidy)}
            chk.count(f"dataset:report={'+'.join(report) or 'none'}")
            chk.count(f"dataset:ploidies={sorted(set(ds.ploidy.values()))}")
            for f_ in sorted(feats):
                chk.count(f"dataset:feature:{f_}")
            bam = ds.sample_bam

            def argv_for(prog, sel, hv=None, extra=(), ploidy=None, inb=None):
                bams = [bam[s] for s in sel]
                inb_used = inb if inb is not None else (inb_args if ploidy is None else [])
                if prog.startswith("assemble"):
                    a = ["mchap", "assemble", "--bam", *bams, "--ploidy", ploidy or ds.ploidy_file, "--targets", ds.bed,
                         "--variants", ds.snv_vcf, "--reference", ds.fasta, *MCMC, *seed, *extra, *inb_used,
                         *(hi_thr if prog == "assemble-hi" else []), *report_args]
                else:
                    a = ["mchap", prog, "--bam", *bams, "--ploidy", ploidy or ds.ploidy_file, "--haplotypes", hv,
                         *(MCMC + seed if prog == "call" else []), *extra, *inb_used, *report_args]
                return a

            # ---- assemble with all samples (also provides the haplotypes for call / call-exact)
            base = {}
            for prog in ("assemble", "assemble-hi"):
                base[prog] = run_prog(obs, argv_for(prog, ds.samples), f"{prog} all samples")
                queue_reads_cases(pending, base[prog], f"{prog} all")
                queue_assemble_cases(pending, base[prog], f"{prog} all")
            out, code, err = synth.run_program(argv_for("assemble", ds.samples))
            if code != 0:
                raise C.ProgramAbort(err[:300])
            # the last record is turned into one that cannot be called (reference masked, no alternative allele: filter NOA):
            # the callers then write missing calls, whose shape depends on the sample's own ploidy only
            lines_ = out.split("\n")
            for k_ in range(len(lines_) - 1, -1, -1):
                if lines_[k_] and not lines_[k_].startswith("#"):
                    f_ = lines_[k_].split("\t")
                    end_ = next((x for x in f_[7].split(";") if x.startswith("END=")), f"END={int(f_[1]) + len(f_[3]) - 1}")
                    f_[4] = "."
                    f_[7] = f"REFMASKED;{end_};NVAR=0;SNVPOS=."
                    f_[8] = "GT"
                    f_[9:] = ["/".join(["."] * ds.ploidy[s_]) for s_ in ds.samples]
                    lines_[k_] = "\t".join(f_)
                    chk.count("dataset:uncallable-record(NOA)")
                    break
            out = "\n".join(lines_)
            hv = synth.bgzip_tabix_vcf(synth.write_text(os.path.join(work, f"ds{d}.haps.vcf"), out))
            for prog in ("call", "call-exact"):
                base[prog] = run_prog(obs, argv_for(prog, ds.samples, hv), f"{prog} all samples")
                queue_reads_cases(pending, base[prog], f"{prog} all")
            chk.count("runs:base", 4)
            if tier == "warm":
                flush_model(chk, drv, pending)
                continue

            # ---- subsets and orders
            for sel, is_perm in selections(r, ds.samples, tier):
                for prog in ("call", "call-exact", "assemble", "assemble-hi"):
                    tag = {**tag0, "prog": prog, "selection": sel}
                    res = run_prog(obs, argv_for(prog, sel, hv), f"{prog} {sel}")
                    chk.count(f"runs:{prog}:{'order' if is_perm else 'subset'}:{len(sel)}")
                    chk.case({"kind": "selection", **tag}, len(sel) >= 2)
                    if prog.startswith("assemble"):
                        full_perm = is_perm and len(sel) == len(ds.samples)
                        compare_assemble(chk, res, base[prog], sel, ds.samples, tag, permutation=full_perm)
                        queue_assemble_cases(pending, res, f"assemble {sel}")
                    else:
                        compare_call_columns(chk, prog, base[prog], res, sel, tag)
                    if len(sel) == 1 or is_perm:
                        queue_reads_cases(pending, res, f"{prog} {sel}")
                flush_model(chk, drv, pending)

            # ---- all samples in ONE alignment file (several SM values per BAM): same columns as from separate files
            S = ds.samples
            multi = synth.merge_bams(os.path.join(work, f"ds{d}.multi.bam"), ds.contigs, ds, [bam[s] for s in S], sample_name=None)
            for prog in ("call", "call-exact", "assemble"):
                tag = {**tag0, "prog": prog, "selection": "all samples in one multi-sample BAM"}
                a = argv_for(prog, S, hv)
                i = a.index("--bam")
                a[i + 1:i + 1 + len(S)] = [multi]
                res = run_prog(obs, a, f"{prog} multi-sample bam")
                chk.count(f"runs:{prog}:multi-sample-bam")
                chk.case({"kind": "multi-sample-bam", **tag}, True)
                if prog.startswith("assemble"):
                    compare_assemble(chk, res, base[prog], list(S), ds.samples, tag, permutation=False)
                else:
                    compare_call_columns(chk, prog, base[prog], res, list(S), tag)
                queue_reads_cases(pending, res, f"{prog} multi-sample bam")
            flush_model(chk, drv, pending)

            # ---- a subset (in another order) selected out of the multi-sample BAM through a `sample<TAB>path` list file
            for v in range(1 if tier != "thorough" else 3):
                k = r.randint(1, len(S) - 1) if v != 1 else len(S)
                sel = r.sample(list(S), k)
                lst = synth.write_text(os.path.join(work, f"ds{d}.bamlist{v}.txt"), "".join(f"{s_}\t{multi}\n" for s_ in sel))
                for prog in ("call", "call-exact", "assemble"):
                    tag = {**tag0, "prog": prog, "selection": sel, "via": "sample<TAB>path list file on the multi-sample BAM"}
                    a = argv_for(prog, S, hv)
                    i = a.index("--bam")
                    a[i + 1:i + 1 + len(S)] = [lst]
                    res = run_prog(obs, a, f"{prog} bam list file {sel}")
                    chk.count(f"runs:{prog}:bam-list-file:{len(sel)}")
                    chk.case({"kind": "bam-list-file", **tag}, len(sel) >= 2)
                    if prog.startswith("assemble"):
                        compare_assemble(chk, res, base[prog], sel, ds.samples, tag,
                                         permutation=len(sel) == len(S))
                    else:
                        compare_call_columns(chk, prog, base[prog], res, sel, tag)
                    queue_reads_cases(pending, res, f"{prog} bam list file")
            flush_model(chk, drv, pending)

            # ---- samples named by read-group ID (--read-group-field ID) on the multi-sample BAM: same columns under the ID names
            rgs = ds.read_groups[multi]
            id_of = {}
            for rg in rgs:
                id_of.setdefault(rg["SM"], []).append(rg["ID"])
            if all(len(id_of.get(s_, [])) == 1 for s_ in S):
                name_of = {id_of[s_][0]: s_ for s_ in S}
                id_ploidy = synth.write_text(os.path.join(work, f"ds{d}.ploidy-by-id.txt"),
                                             "".join(f"{id_of[s_][0]}\t{ds.ploidy[s_]}\n" for s_ in reversed(S)))
                for prog in ("call", "call-exact", "assemble"):
                    tag = {**tag0, "prog": prog, "selection": "multi-sample BAM, --read-group-field ID", "ids": id_of}
                    inb_id = None
                    if inb_args:                     # the per-sample file is keyed by the sample names in use: here the read-group IDs
                        by_name = dict(l_.split("\t") for l_ in open(inb_args[1]).read().split("\n") if l_)
                        inb_id = ["--inbreeding", synth.write_text(os.path.join(work, f"ds{d}.inbreeding-by-id.txt"),
                                                                   "".join(f"{id_of[s_][0]}\t{by_name[s_]}\n" for s_ in S))]
                    a = argv_for(prog, S, hv, extra=["--read-group-field", "ID"], ploidy=id_ploidy, inb=inb_id)
                    i = a.index("--bam")
                    a[i + 1:i + 1 + len(S)] = [multi]
                    res = run_prog(obs, a, f"{prog} read-group-field ID")
                    chk.count(f"runs:{prog}:read-group-field-ID")
                    chk.case({"kind": "read-group-field-ID", **tag}, True)
                    queue_reads_cases(pending, res, f"{prog} read-group-field ID")
                    bad = [n for rec_ in res["records"] for n in rec_["sample_names"] if n not in name_of]
                    if bad:
                        chk.violation(f"{prog}: with --read-group-field ID the columns are not named by the read-group IDs",
                                      {**tag, "columns": res["records"][0]["sample_names"]}, "C10/columns/order")
                        continue
                    for rec_ in res["records"]:
                        rec_["sample_names"] = [name_of[n] for n in rec_["sample_names"]]
                    if prog.startswith("assemble"):
                        compare_assemble(chk, res, base[prog], list(S), ds.samples, tag, permutation=False)
                    else:
                        compare_call_columns(chk, prog, base[prog], res, list(S), tag)
                flush_model(chk, drv, pending)

            # ---- pools vs physically merged BAMs
            # (one pool carries the name of one of its members)
            pool_defs = [("P_ab", [S[0], S[1]]), ("P_all", list(S)), ("P_one", [S[-1]]), (S[1], [S[1], S[0]])]
            chk.count("pools:pool-named-like-a-member")
            if len(S) >= 4:
                pool_defs.append(("P_cd", [S[2], S[3]]))
            r.shuffle(pool_defs)
            pools = [p for p, _ in pool_defs]
            # pool file: the pools interleaved at random, the members of each pool in their listed order (that is the
            # concatenation order); a sample occurs in several pools
            todo = {p: list(m) for p, m in pool_defs}
            seq = []
            for _ in range(sum(len(m) for m in todo.values())):
                p = r.choice([q for q in pools if todo[q]])
                seq.append((todo[p].pop(0), p))
            pool_order = []
            for s_, p in seq:
                if p not in pool_order:
                    pool_order.append(p)
            pool_file = synth.write_text(os.path.join(work, f"ds{d}.pools.txt"), "".join(f"{s}\t{p}\n" for s, p in seq))
            pool_ploidy = {p: r.choice([2, 4]) if d == 0 else r.choice([2, 3, 4, 6]) for p in pools}
            ploidy_file = synth.write_text(os.path.join(work, f"ds{d}.pool-ploidy.txt"),
                                           "".join(f"{p}\t{pool_ploidy[p]}\n" for p in pool_order))
            merged_bams = {}
            for p, members in pool_defs:
                merged_bams[p] = synth.merge_bams(os.path.join(work, f"ds{d}.{p}.bam"), ds.contigs, ds,
                                                  [bam[s] for s in members], sample_name=p)
            for prog in ("call", "call-exact", "assemble", "assemble-hi"):
                tag = {**tag0, "prog": prog, "pools": {p: m for p, m in pool_defs}, "pool_order": pool_order}
                pooled = run_prog(obs, argv_for(prog, S, hv, extra=["--sample-pool", pool_file], ploidy=ploidy_file),
                                  f"{prog} pools")
                queue_reads_cases(pending, pooled, f"{prog} pools")
                a = argv_for(prog, S, hv, ploidy=ploidy_file)
                i = a.index("--bam")
                a[i + 1:i + 1 + len(S)] = [merged_bams[p] for p in pool_order]
                merged = run_prog(obs, a, f"{prog} merged bams")
                chk.count(f"runs:{prog}:pools")
                chk.case({"kind": "pools", **tag}, True)
                compare_pool_vs_merged(chk, prog, pooled, merged, pool_order, tag)
                if prog.startswith("assemble"):
                    queue_assemble_cases(pending, pooled, "assemble pools")
                # a pool of one sample is that sample (when the ploidy is the same): covered by P_one vs merged;
                # the pool of ALL samples by name (`--sample-pool NAME`)
                if not prog.startswith("assemble"):
                    one = run_prog(obs, argv_for(prog, S, hv, extra=["--sample-pool", "EVERYTHING"], ploidy="4"),
                                   f"{prog} pool of all by name")
                    a2 = argv_for(prog, S, hv, ploidy="4")
                    allbam = synth.merge_bams(os.path.join(work, f"ds{d}.{prog}.EVERYTHING.bam"), ds.contigs, ds,
                                              [bam[s] for s in S], sample_name="EVERYTHING")
                    i = a2.index("--bam")
                    a2[i + 1:i + 1 + len(S)] = [allbam]
                    m2 = run_prog(obs, a2, f"{prog} merged all")
                    compare_pool_vs_merged(chk, prog, one, m2, ["EVERYTHING"], {**tag, "pools": "EVERYTHING"})
                    queue_reads_cases(pending, one, f"{prog} pool-all")
            flush_model(chk, drv, pending)
    finally:
        obs.uninstall()
        shutil.rmtree(work, ignore_errors=True)
    return chk.finish()
