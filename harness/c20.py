"""C20 — atomize emits the per-SNV projection of every haplotype record.

Correspondence: `mchap atomize` (in-process) on (a) generated haplotype VCF text covering every record shape
(no SNV, no ALT, a SNV monomorphic among the listed haplotypes, `.` alleles, with / without ACP / AFP / SNVDP,
REFMASKED, short ACP arrays, all-missing AF0 records) and (b) real outputs of assemble / call / call-exact on
synthetic datasets (whole files and one record at a time); stdout is parsed independently and compared with the
Lean model (`atom`).  Oracle: the property statement evaluated directly in Python (`py_block`).

The model is total on these shapes since the repairs of F8 (no ALT), F9 (monomorphic site), N1 ('.' in ACP/AFP) and
N2 (PQ printed as 'None'); a crash or a 'None' is classified by `classify_crash` / the PQ oracle under the
signatures of those defects, so a reverted fix fires them again.
"""
from __future__ import annotations

import os
import re
import shutil
import tempfile
from fractions import Fraction

import numpy as np

from . import common as C
from . import synth as S

PROP = "C20"
MODULE = "MCHap.Properties.C20"
THEOREMS = [
    "MCHap.C20.pos_spec",
    "MCHap.C20.gt_projection",
    "MCHap.C20.block_gts",
    "MCHap.C20.block_alleles_ac",
    "MCHap.C20.numbering_first_appearance",
    "MCHap.C20.alleles_first_appearance",
    "MCHap.C20.marginal_spec",
    "MCHap.C20.ac_marginal",
    "MCHap.C20.acp_marginal",
    "MCHap.C20.acp_sums_to_ploidy",
    "MCHap.C20.block_no_snv",
    "MCHap.C20.block_total",
    "MCHap.C20.block_line_shape",
    "MCHap.C20.monomorphic_site_line",
    "MCHap.C20.no_alt_all_monomorphic",
    "MCHap.C20.missing_counts_are_missing",
]
RULE = ("cases: one haplotype record each (generated shapes + every record of real assemble/call/call-exact outputs). "
        "Non-trivial: >= 2 SNVs, >= 2 ALT, a '.' allele or a posterior-count field present, and a site where two "
        "listed haplotypes share a base. Distinct by the record text.")

SIG_F8 = "C20/atomize/no-alt-crash"
SIG_F9 = "C20/atomize/monomorphic-crash"
SIG_ACP = "C20/atomize/missing-acp-crash"
SIG_PQ = "C20/atomize/pq-none"
SLACK = Fraction(1, 10 ** 9)
MCMC = ["--mcmc-steps", "300", "--mcmc-burn", "100"]

HEADER = """##fileformat=VCFv4.3
##contig=<ID=chr1,length=100000>
##FILTER=<ID=PASS,Description="All filters passed">
##FILTER=<ID=NOA,Description="No observed alleles at locus">
##FILTER=<ID=AF0,Description="All alleles have prior allele frequency of zero">
##INFO=<ID=AC,Number=A,Type=Integer,Description="x">
##INFO=<ID=REFMASKED,Number=0,Type=Flag,Description="x">
##INFO=<ID=END,Number=1,Type=Integer,Description="x">
##INFO=<ID=NVAR,Number=1,Type=Integer,Description="x">
##INFO=<ID=SNVPOS,Number=.,Type=Integer,Description="x">
##FORMAT=<ID=GT,Number=1,Type=String,Description="Genotype">
##FORMAT=<ID=SQ,Number=1,Type=Integer,Description="x">
##FORMAT=<ID=ACP,Number=R,Type=Float,Description="x">
##FORMAT=<ID=AFP,Number=R,Type=Float,Description="x">
##FORMAT=<ID=SNVDP,Number=.,Type=Integer,Description="x">
"""


# --------------------------------------------------------------------------------------
# decoding a haplotype record the way atomize sees it (pysam: Float fields are float32)
# --------------------------------------------------------------------------------------

def f32(text):
    return Fraction(float(np.float32(text)))


def decode(rec):
    """dict: pos, id, ref, alts (None for '.'), snvpos (None for '.'), samples [{gt, sq, acp, afp, snvdp}]"""
    sp = rec["INFO"].get("SNVPOS", ".")
    out = {"pos": rec["POS"], "id": None if rec["ID"] == "." else rec["ID"], "ref": rec["REF"],
           "alts": rec["ALT"] if rec["ALT"] else None,
           "snvpos": None if sp in (".", True) else [int(x) for x in sp.split(",")], "samples": []}
    for s in rec["samples"]:
        def arr(k):
            if k not in s:
                return None
            return [None if x == "." else f32(x) for x in s[k].split(",")]
        dp = None
        if "SNVDP" in s and out["snvpos"] is not None:      # without SNVs atomize never looks at it
            dp = [None if x == "." else int(x) for x in s["SNVDP"].split(",")]
        out["samples"].append({
            "gt": [None if a == "." else int(a) for a in re.split(r"[/|]", s["GT"])],
            "sq": None if s.get("SQ", ".") == "." else int(s["SQ"]),
            "acp": arr("ACP"), "afp": arr("AFP"), "snvdp": dp})
    return out


def request(d):
    def cells(v):
        return "-" if v is None else ",".join("nan" if x is None else f"{x.numerator}/{x.denominator}" for x in v)
    toks = ["atom", str(d["pos"]), d["id"] or ".", d["ref"], ",".join(d["alts"]) if d["alts"] else ".",
            ",".join(map(str, d["snvpos"])) if d["snvpos"] is not None else "."]
    for s in d["samples"]:
        gt = "/".join("." if a is None else str(a) for a in s["gt"])
        sq = "." if s["sq"] is None else str(s["sq"])
        dp = "-" if s["snvdp"] is None else ",".join(str(x) for x in s["snvdp"])
        toks.append(";".join([gt, sq, cells(s["acp"]), cells(s["afp"]), dp]))
    return " ".join(toks)


def modellable(d):
    """shapes outside the model's input language (not producible by the programs): '.' inside SNVDP"""
    return all(s["snvdp"] is None or all(x is not None for x in s["snvdp"]) for s in d["samples"])


# --------------------------------------------------------------------------------------
# the property statement, evaluated directly
# --------------------------------------------------------------------------------------

def py_block(d):
    """expected lines of one record per the property statement; each line a dict; monomorphic sites carry
    alts == [] (the statement allows omitting them or printing ALT '.')"""
    if d["snvpos"] is None:
        return []
    haps = [d["ref"]] + (d["alts"] or [])
    lines = []
    for k, p in enumerate(d["snvpos"]):
        bases = [h[p - 1] for h in haps]
        alleles = []
        for b in bases:
            if b not in alleles:
                alleles.append(b)
        site = [alleles.index(b) for b in bases]          # numbered by first appearance, REF first
        n_all = len(alleles)
        ac = [0] * n_all
        gts, dss, sdps = [], [], []
        acp_tot = [Fraction(0)] * n_all
        for s in d["samples"]:
            gts.append([None if a is None else site[a] for a in s["gt"]])
            for a in s["gt"]:
                if a is not None:
                    ac[site[a]] += 1
            ploidy = len(s["gt"])
            usable = lambda v: v is not None and all(x is not None for x in v)
            # posterior counts: ACP, else AFP x ploidy; a '.' entry makes the field unknown
            src = s["acp"] if usable(s["acp"]) else ([x * ploidy for x in s["afp"]] if usable(s["afp"]) else None)
            m = None
            if src is not None:
                m = [sum((c for h, c in enumerate(src) if h < len(site) and site[h] == a), Fraction(0)) for a in range(n_all)]
                tot = sum(m)
                m = None if tot == 0 else [x * ploidy / tot for x in m]    # documented normalisation to the ploidy
            dss.append(None if m is None else m[1:])
            acp_tot = None if (m is None or acp_tot is None) else [x + y for x, y in zip(acp_tot, m)]
            sdps.append(None if s["snvdp"] is None else s["snvdp"][k])
        lines.append({"pos": d["pos"] + p - 1, "ref": alleles[0], "alts": alleles[1:], "ac": ac[1:], "acp": acp_tot,
                      "dp": None if any(x is None for x in sdps) else sum(sdps), "ps": d["pos"],
                      "id": f"{d['id']}_SNV{k + 1}" if d["id"] else ".",
                      "gts": gts, "ds": dss, "sdp": sdps, "pq": [s["sq"] for s in d["samples"]]})
    return lines


def num_close(text, want, scale=1):
    if want is None:
        return text == "."
    if text == "." or not re.match(r"^-?[0-9]+(\.[0-9]+)?$", text):
        return False
    return abs(Fraction(text) - want) <= Fraction(1, 2000) + SLACK * max(1, scale)


def row_close(text, wants):
    if wants is None:
        return None
    t = text.split(",")
    if len(wants) == 0:
        return text == "."
    return len(t) == len(wants) and all(num_close(x, w, 10) for x, w in zip(t, wants))


def compare_line(out, want, n_alt_slots=None):
    """list of differences between a printed line (parse_vcf_text record) and an expected line"""
    bad = []
    if out["POS"] != want["pos"]:
        bad.append(f"POS {out['POS']} != {want['pos']}")
    if out["ID"] != want["id"]:
        bad.append(f"ID {out['ID']} != {want['id']}")
    if out["REF"] != want["ref"] or out["ALT"] != want["alts"]:
        bad.append(f"REF/ALT {out['REF']}/{out['ALT']} != {want['ref']}/{want['alts']}")
    info = out["INFO"]
    if info.get("PS") != str(want["ps"]):
        bad.append(f"PS {info.get('PS')} != {want['ps']}")
    ac = info.get("AC", "")
    if ac != (",".join(str(x) for x in want["ac"]) if want["ac"] else "."):
        bad.append(f"AC {ac} != {want['ac']}")
    acp = want["acp"]
    if acp is None:
        if info.get("ACP") != ",".join(["."] * (len(want["alts"]) + 1)):
            bad.append(f"ACP {info.get('ACP')} expected all missing")
    elif not row_close(info.get("ACP", ""), acp):
        bad.append(f"ACP {info.get('ACP')} != {[float(x) for x in acp]}")
    dp = info.get("DP", "")
    if dp != ("." if want["dp"] is None else str(want["dp"])):
        bad.append(f"DP {dp} != {want['dp']}")
    if out["FORMAT"] != ["GT", "GQ", "PQ", "DP", "DS"]:
        bad.append(f"FORMAT {out['FORMAT']}")
        return bad
    if len(out["samples"]) != len(want["gts"]):
        bad.append("number of samples")
        return bad
    for i, s in enumerate(out["samples"]):
        gt = "|".join("." if a is None else str(a) for a in want["gts"][i])
        if s.get("GT") != gt:
            bad.append(f"sample {i} GT {s.get('GT')} != {gt}")
        sdp = want["sdp"][i]
        if s.get("DP") != ("." if sdp is None else str(sdp)):
            bad.append(f"sample {i} DP {s.get('DP')} != {sdp}")
        ds = want["ds"][i]
        if ds is None:
            if s.get("DS") != ",".join(["."] * len(want["alts"])) and not (not want["alts"] and s.get("DS") == "."):
                bad.append(f"sample {i} DS {s.get('DS')} expected missing")
        elif not row_close(s.get("DS", ""), ds):
            bad.append(f"sample {i} DS {s.get('DS')} != {[float(x) for x in ds]}")
    return bad


def parse_model_line(text):
    """model reply of one line -> expected-line dict (same shape as py_block's)"""
    f = text.split(" ")
    pos, id_, ref, alts = int(f[0]), f[1], f[2], ([] if f[3] == "." else f[3].split(","))
    kv = dict(x.split("=", 1) for x in f[4:8])

    def rats(v):
        return [] if v == "." else [None if x == "nan" else C.parse_rat(x) for x in v.split(",")]
    acp = rats(kv["ACP"])
    line = {"pos": pos, "id": id_, "ref": ref, "alts": alts, "ac": [int(x) for x in rats(kv["AC"])],
            "acp": None if any(x is None for x in acp) else acp,
            "dp": None if kv["DP"] == "nan" else int(C.parse_rat(kv["DP"])), "ps": int(kv["PS"]),
            "gts": [], "ds": [], "sdp": [], "pq": []}
    for s in f[8:]:
        gt, pq, dp, ds = s.split(":")
        line["gts"].append([None if a == "." else int(a) for a in gt.split("|")])
        line["pq"].append(None if pq == "." else int(pq))
        line["sdp"].append(None if dp == "nan" else int(C.parse_rat(dp)))
        d = rats(ds)
        line["ds"].append(None if any(x is None for x in d) else d)
    return line


# --------------------------------------------------------------------------------------
# generated records
# --------------------------------------------------------------------------------------

BASES = "ACGT"
SHAPES = ["normal", "normal", "normal", "dots", "no-snv", "no-alt", "mono", "refmasked", "short-acp", "af0", "zero-acp"]


def gen_record(r, shape, samples, ploidy, fields, pos, idx):
    """one haplotype record line of the given shape; `fields` subset of {ACP, AFP, SNVDP}"""
    L = r.randint(4, 12)
    ref = "".join(r.choice(BASES) for _ in range(L))
    n_snv = 0 if shape == "no-snv" else r.randint(1, min(4, L))
    snvpos = sorted(r.sample(range(1, L + 1), n_snv))
    n_alt = 0 if shape in ("no-snv", "no-alt") else r.randint(1, 4)
    alts = []
    mono = set()
    if shape == "mono" and snvpos:
        mono = {r.choice(snvpos)} if len(snvpos) > 1 else set(snvpos)
    for _ in range(200):
        if len(alts) >= n_alt:
            break
        h = list(ref)
        for p in snvpos:
            if p in mono:
                continue
            if r.random() < 0.55:
                h[p - 1] = r.choice([b for b in BASES if b != ref[p - 1]])
        h = "".join(h)
        if h != ref and h not in alts:
            alts.append(h)
    # every site that is not meant to be monomorphic carries an alternative base in some ALT
    for p in snvpos:
        if alts and p not in mono and all(h[p - 1] == ref[p - 1] for h in alts):
            for _ in range(20):
                j = r.randrange(len(alts))
                h = list(alts[j])
                h[p - 1] = r.choice([b for b in BASES if b != ref[p - 1]])
                h = "".join(h)
                if h not in alts:
                    alts[j] = h
                    break
    if shape not in ("no-snv", "no-alt") and not alts:
        # every SNV monomorphic: make the shape explicit (one ALT differing outside SNVPOS is not a haplotype VCF) -> no ALT
        shape = "no-alt"
    n_hap = 1 + len(alts)
    info = []
    if shape == "refmasked" or (shape in ("dots", "normal") and r.random() < 0.15):
        info.append("REFMASKED")
    info += [f"END={pos + L - 1}", f"NVAR={n_snv}", "SNVPOS=" + (",".join(map(str, snvpos)) if snvpos else ".")]
    fmt = ["GT", "SQ"] + [f for f in ("ACP", "AFP", "SNVDP") if f in fields]
    cols = []
    for s in samples:
        p = ploidy[s]
        lo = 1 if "REFMASKED" in info and n_hap > 1 else 0
        if shape == "af0":
            gt = [None] * p
        else:
            called = sorted(r.randint(lo, n_hap - 1) for _ in range(p))
            k = 0
            if shape == "dots" or r.random() < 0.15:
                k = r.choice([1, 1, p])
            gt = called[:p - k] + [None] * k
        w = [r.random() if h >= lo else 0.0 for h in range(n_hap)]
        tot = sum(w) or 1.0
        n_keep = n_hap - (1 if (shape == "short-acp" and n_hap > 1) else 0)
        vals = {"GT": "/".join("." if a is None else str(a) for a in gt),
                "SQ": "." if shape == "af0" else str(r.randint(0, 60))}
        if shape == "af0":
            vals.update({"ACP": ".", "AFP": "."})
        elif shape == "zero-acp" and r.random() < 0.5:
            vals.update({"ACP": ",".join(["0"] * n_hap), "AFP": ",".join(["0"] * n_hap)})
        else:
            fmt3 = lambda x: (f"{x:.3f}".rstrip("0").rstrip(".") or "0")
            vals["ACP"] = ",".join(fmt3(x / tot * p) for x in w[:n_keep])
            vals["AFP"] = ",".join(fmt3(x / tot) for x in w[:n_keep])
        vals["SNVDP"] = ",".join(str(r.randint(0, 40)) for _ in snvpos) if snvpos else "."
        cols.append(":".join(vals[k] for k in fmt))
    filt = "AF0" if shape == "af0" else "PASS"
    line = "\t".join([
        "chr1", str(pos), "." if r.random() < 0.1 else f"rec{idx}", ref, ",".join(alts) if alts else ".", ".", filt,
        ";".join(info), ":".join(fmt)] + cols)
    return line, shape


def gen_file(r, n_rec, shapes=None, fields=None):
    n_s = r.randint(1, 4)
    samples = [f"S{i + 1}" for i in range(n_s)]
    ploidy = {s: r.choice([1, 2, 2, 4, 4, 6]) for s in samples}
    if fields is None:
        fields = {f for f in ("ACP", "AFP", "SNVDP") if r.random() < 0.5}
    lines, shp = [], []
    pos = 10
    for i in range(n_rec):
        shape = r.choice(SHAPES) if shapes is None else shapes[i % len(shapes)]
        line, shape = gen_record(r, shape, samples, ploidy, fields, pos, i)
        lines.append(line)
        shp.append(shape)
        pos += r.randint(15, 40)
    text = HEADER + "#CHROM\tPOS\tID\tREF\tALT\tQUAL\tFILTER\tINFO\tFORMAT\t" + "\t".join(samples) + "\n" + "\n".join(lines) + "\n"
    return text, shp


# --------------------------------------------------------------------------------------
# one atomize run
# --------------------------------------------------------------------------------------

def classify_crash(d, err):
    """signature of a crash: the exception together with the shape predicate of the record that triggered it"""
    haps = [d["ref"]] + (d["alts"] or [])
    if "has no len()" in err and d["alts"] is None and d["snvpos"]:
        return SIG_F8
    if "IndexError" in err and d["snvpos"] and any(len({h[p - 1] for h in haps}) == 1 for p in d["snvpos"]):
        return SIG_F9
    if "TypeError" in err and "NoneType" in err and any(
            (s["acp"] is not None and None in s["acp"]) or (s["afp"] is not None and None in s["afp"])
            for s in d["samples"]):
        return SIG_ACP
    return "C20/atomize/crash"


class Atomizer:
    def __init__(self, chk, drv, work):
        self.chk, self.drv, self.work = chk, drv, work
        self.n = 0

    def run(self, text, origin, shapes=None):
        chk = self.chk
        self.n += 1
        path = S.write_text(os.path.join(self.work, f"in{self.n}.vcf"), text)
        out, code, err = S.run_program(["mchap", "atomize", path])
        _, recs = S.parse_vcf_text(text)
        try:
            out_header, out_recs = S.parse_vcf_text(out)
        except ValueError as e:
            chk.violation(f"atomize output unparsable: {e}", {"origin": origin, "input": text[-1500:]}, "C20/atomize/unparsable")
            return
        decs = [decode(x) for x in recs]
        usable = [modellable(d) for d in decs]
        answers = self.drv.ask([request(d) for d, u in zip(decs, usable) if u])
        it = iter(answers)
        answers = [next(it) if u else None for u in usable]
        cursor = 0
        crashed_at = None
        for i, (rec, d, ans) in enumerate(zip(recs, decs, answers)):
            shape = shapes[i] if shapes else origin
            chk.count(f"shape:{shape}")
            haps = [d["ref"]] + (d["alts"] or [])
            shared = bool(d["snvpos"]) and any(len({h[p - 1] for h in haps}) < len(haps) for p in d["snvpos"])
            nontriv = bool(d["snvpos"]) and len(d["snvpos"]) >= 2 and len(haps) >= 3 and shared and (
                any(None in s["gt"] for s in d["samples"]) or any(s["acp"] is not None or s["afp"] is not None for s in d["samples"]))
            case = {"origin": origin, "shape": shape, "record": rec["line"], "samples_header": rec["sample_names"]}
            want = py_block(d)
            if ans is None:
                chk.count("outside-model-language")
                continue
            chk.case(rec["line"], nontriv, sample={"request": request(d)[:300], "model": ans[:300],
                                                   "impl": [x["line"] for x in out_recs[cursor:cursor + 2]]})
            if ans.startswith("error:"):
                # the model predicts that the program aborts here
                crashed_at = i
                kind = ans.split(":")[1]
                if code == 0 or kind not in err:
                    chk.disagreement(f"model predicts {ans} on this record, atomize returned exit {code} {err[:200]}", {**case, "model": ans})
                if len(out_recs) != cursor:
                    chk.disagreement("atomize printed lines after the record the model aborts on", {**case, "printed": len(out_recs), "expected": cursor})
                if code != 0:
                    chk.count(f"crash:{classify_crash(d, err)}")
                    chk.violation(f"mchap atomize raised on a record shape the calling programs can produce: {err[:300]}",
                                  {**case, "error": err, "expected_lines": len(want)}, classify_crash(d, err))
                break
            model_lines = [] if ans == "none" else [parse_model_line(x) for x in ans.split(" ; ")]
            got = out_recs[cursor:cursor + len(model_lines)]
            cursor += len(model_lines)
            if len(got) != len(model_lines):
                chk.disagreement("atomize printed fewer lines than the model", {**case, "model": ans[:500], "printed": [x["line"] for x in got]})
                if code != 0:
                    chk.violation(f"mchap atomize raised: {err[:300]}", {**case, "error": err}, classify_crash(d, err))
                break
            for g, m in zip(got, model_lines):
                diff = compare_line(g, m)
                pq = [s.get("PQ") for s in g["samples"]]
                if pq != ["." if x is None else str(x) for x in m["pq"]]:
                    diff.append(f"PQ {pq} != {m['pq']}")
                if diff:
                    chk.disagreement("atomize line != model line: " + "; ".join(diff[:3]), {**case, "line": g["line"], "model": m})
            # ---- oracle: the statement itself
            poly = [w for w in want if w["alts"]]
            mono = [w for w in want if not w["alts"]]
            printed = {g["POS"]: g for g in got}
            for w in poly:
                g = printed.get(w["pos"])
                if g is None:
                    chk.violation(f"no line at POS + SNVPOS - 1 = {w['pos']}", {**case, "expected": str(w)[:500]}, "C20/atomize/line-missing")
                    continue
                diff = compare_line(g, w)
                if diff:
                    chk.violation("atomize line differs from the per-SNV projection: " + "; ".join(diff[:3]),
                                  {**case, "line": g["line"]}, "C20/atomize/projection")
            for w in mono:
                # the statement allows omitting such a site; when it is printed it carries ALT '.' and the projection
                g = printed.get(w["pos"])
                if g is None:
                    chk.count("monomorphic-site-omitted")
                    continue
                chk.count("monomorphic-site-printed")
                diff = compare_line(g, w)
                if diff:
                    chk.violation("line of a site without alternative base differs from the projection: " + "; ".join(diff[:3]),
                                  {**case, "line": g["line"]}, "C20/atomize/projection")
            for w in want:
                g = printed.get(w["pos"])
                if g is None:
                    continue
                pq = [x.get("PQ") for x in g["samples"]]
                if pq != ["." if q is None else str(q) for q in w["pq"]]:
                    bad_text = any(x != "." and not re.match(r"^-?[0-9]+$", x or "") for x in pq)
                    if bad_text:
                        chk.count("pq-None")
                    chk.violation(f"atomize prints FORMAT/PQ (Type=Integer) as {pq} for samples with SQ {w['pq']}",
                                  {**case, "line": g["line"]}, SIG_PQ if bad_text else "C20/atomize/projection")
            extra = set(printed) - {w["pos"] for w in want}
            if extra:
                chk.violation(f"lines at positions that are no SNVPOS of the record: {sorted(extra)}", case, "C20/atomize/extra-lines")
        else:
            if code != 0:
                chk.disagreement(f"atomize raised although the model accepts every record: {err[:300]}", {"origin": origin, "error": err})
            if cursor != len(out_recs):
                chk.disagreement("atomize printed more lines than the model", {"origin": origin, "printed": len(out_recs), "expected": cursor})
        # header sanity: sample names carried over
        if out_header and recs and S.vcf_sample_names(out_header) != recs[0]["sample_names"]:
            chk.violation("atomize changed the sample columns", {"origin": origin}, "C20/atomize/samples")


def single_record_files(text):
    lines = text.split("\n")
    head = [l for l in lines if l.startswith("#")]
    for l in lines:
        if l and not l.startswith("#"):
            yield "\n".join(head + [l]) + "\n"


def unit_indices(chk, drv, r, n):
    """get_haplotype_snv_indices / format_snv_alleles against the model and the first-appearance spec"""
    from mchap.application.atomize import get_haplotype_snv_indices, format_snv_alleles
    reqs, meta = [], []
    for _ in range(n):
        k = r.randint(1, 7)
        col = "".join(r.choice(BASES[:r.randint(1, 4)]) for _ in range(k))
        arr = np.array([[c] for c in col], dtype="U1")
        impl = [int(x) for x in get_haplotype_snv_indices(arr)[:, 0]]
        ref, alts, n_alts = format_snv_alleles(arr)
        reqs.append("atom.idx " + col)
        meta.append((col, impl, str(ref[0]) + str(alts[0]).replace(",", ""), int(n_alts[0])))
    for q, a, (col, impl, alleles, n_alt) in zip(reqs, drv.ask(reqs), meta):
        chk.count("unit:indices")
        chk.case(q, len(set(col)) >= 3)
        m_idx, m_all = a.split(" | ")
        seen = []
        for c in col:
            if c not in seen:
                seen.append(c)
        want = [seen.index(c) for c in col]
        if m_idx != " ".join(map(str, impl)) or m_all != alleles:
            chk.disagreement("get_haplotype_snv_indices / format_snv_alleles != model", {"column": col, "impl": impl, "impl_alleles": alleles, "model": a})
        if impl != want or alleles != "".join(seen) or n_alt != len(seen) - 1:
            chk.violation("site alleles are not numbered by first appearance with REF first", {"column": col, "impl": impl, "alleles": alleles}, "C20/atomize/numbering")


def run(tier, replay=None):
    chk = C.Check(PROP, tier, MODULE, THEOREMS, RULE, exe="driver_vcf", assumptions=[
        "pysam decoding of the input (Float fields as float32), pandas / numpy text formatting of the output are outside the model; "
        "numeric fields of the output are compared with the exact model values within 1/2000 + 1e-8 (3-decimal rounding)",
        "FORMAT/ACP and FORMAT/AFP are normalised to the ploidy by atomize (documented in its help text); the oracle applies the same normalisation",
        "'.' inside FORMAT/SNVDP (not producible by assemble / call / call-exact when the record has SNVs) is outside the model's input language",
    ])
    chk.prove()
    drv = C.Driver("driver_vcf")
    r = C.rng(PROP)
    work = tempfile.mkdtemp(prefix="c20-")
    try:
        at = Atomizer(chk, drv, work)
        n_files = {"warm": 4, "quick": 120, "thorough": 1200}[tier]
        unit_indices(chk, drv, r, {"warm": 10, "quick": 300, "thorough": 3000}[tier])
        # minimal reproducers of the candidate defects, then every shape on its own, then mixed files
        for shape in ["no-alt", "mono", "af0", "normal", "dots", "no-snv", "refmasked", "short-acp", "zero-acp"]:
            for fields in ([], ["ACP", "SNVDP"], ["AFP"]) if tier != "warm" else ([],):
                text, shp = gen_file(r, 1, [shape], fields=set(fields))
                at.run(text, "generated", shp)
        for i in range(n_files):
            text, shp = gen_file(r, 1 if r.random() < 0.7 else r.randint(2, 5))
            at.run(text, "generated", shp)
        # real pipeline outputs
        n_ds = {"warm": 1, "quick": 2, "thorough": 6}[tier]
        for k in range(n_ds):
            sub = C.rng(f"{PROP}:ds{k}")
            ds = S.make_dataset(sub, os.path.join(work, f"ds{k}"), n_samples=3, n_loci=4, ploidies=(2, 4), max_snvs=4,
                                features={"nodepth"}, depth=(6, 20))
            rep = [["AFP", "SNVDP"], ["ACP"], [], ["ACP", "AFP", "SNVDP"]][k % 4]
            out, code, err = S.run_program(ds.assemble_argv(*MCMC, *((["--report"] + rep) if rep else [])))
            chk.count("run:assemble")
            if code != 0:
                chk.notes.append(f"assemble failed on dataset {k}: {err[:200]} (C07's business)")
                continue
            outputs = [("assemble", out)]
            gz = S.bgzip_tabix_vcf(S.write_text(os.path.join(work, f"asm{k}.vcf"), out))
            for prog in ("call", "call-exact"):
                extra = MCMC if prog == "call" else []
                rep2 = [["ACP", "SNVDP"], ["AFP"], ["SNVDP"], []][(k + (prog == "call")) % 4]
                o2, c2, e2 = S.run_program(ds.call_argv(prog, gz, *extra, *((["--report"] + rep2) if rep2 else [])))
                chk.count(f"run:{prog}")
                if c2 == 0:
                    outputs.append((prog, o2))
                else:
                    chk.notes.append(f"{prog} failed on dataset {k}: {e2[:200]} (C07's business)")
            for prog, text in outputs:
                at.run(text, f"{prog}-output(whole file)")
                for one in single_record_files(text):
                    at.run(one, f"{prog}-output")
        chk.extra["atomize_runs"] = at.n
    finally:
        shutil.rmtree(work, ignore_errors=True)
    return chk.finish()
