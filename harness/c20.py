"""C20 — atomize emits the per-SNV projection of every haplotype record.

Correspondence: `mchap atomize` (in-process) on (a) generated haplotype VCF text covering every record shape
(no SNV, no ALT, a SNV monomorphic among the listed haplotypes, `.` alleles, with / without ACP / AFP / SNVDP,
REFMASKED, short ACP arrays, all-missing AF0 records) and (b) real outputs of assemble / call / call-exact on
synthetic datasets (whole files and one record at a time); stdout is parsed independently and compared with the
Lean model (`atom`).  Oracle: the property statement evaluated directly in Python (`py_block`).

Round 5 (input-shape gaps): alphabet "ACGTN*" (N in REF/ALT, * in ALT; general streams keep <= 4 symbols per site, a
dedicated stream produces sites with 5 / 6 symbols), NOA-shaped records, partially called GTs with '.' anywhere,
'.' inside ACP with AFP complete and vice versa, > 4 SNVs / > 4 ALTs, many samples / high ploidy (AC, ACP totals
>= 100 and >= 1000), two contigs, bgzipped input, header-only input, and pipeline outputs made with
--prior-frequencies / --filter-input-haplotypes, --sample-pool and call-pedigree on a two-contig dataset.

The model is total on these shapes since the repairs of F8 (no ALT), F9 (monomorphic site), N1 ('.' in ACP/AFP) and
N2 (PQ printed as 'None'); a crash or a 'None' is classified by `classify_crash` / the PQ oracle under the
signatures of those defects, so a reverted fix fires them again.
"""
from __future__ import annotations

import os
import re
import shutil
import tempfile
from fractions import Fraction

import numpy as np

from . import common as C
from . import synth as S

PROP = "C20"
MODULE = "MCHap.Properties.C20"
THEOREMS = [
    "MCHap.C20.pos_spec",
    "MCHap.C20.gt_projection",
    "MCHap.C20.block_gts",
    "MCHap.C20.block_alleles_ac",
    "MCHap.C20.numbering_first_appearance",
    "MCHap.C20.alleles_first_appearance",
    "MCHap.C20.marginal_spec",
    "MCHap.C20.ac_marginal",
    "MCHap.C20.acp_marginal",
    "MCHap.C20.acp_sums_to_ploidy",
    "MCHap.C20.block_no_snv",
    "MCHap.C20.block_total",
    "MCHap.C20.block_line_shape",
    "MCHap.C20.monomorphic_site_line",
    "MCHap.C20.no_alt_all_monomorphic",
    "MCHap.C20.missing_counts_are_missing",
]
RULE = ("cases: one haplotype record each (generated shapes + every record of real assemble/call/call-exact outputs). "
        "Non-trivial: >= 2 SNVs, >= 2 ALT, a '.' allele or a posterior-count field present, and a site where two "
        "listed haplotypes share a base. Distinct by the record text.")

SIG_F8 = "C20/atomize/no-alt-crash"
SIG_F9 = "C20/atomize/monomorphic-crash"
SIG_ACP = "C20/atomize/missing-acp-crash"
SIG_PQ = "C20/atomize/pq-none"
# a site with more than four distinct symbols (e.g. A,C,G,T plus N or *): get_sample_snv_ACP has four allele slots
SIG_FIVE = "C20/atomize/acp-five-alleles"
FIVE_STREAM = True          # the dedicated stream of records with a 5- / 6-symbol site
SLACK = Fraction(1, 10 ** 9)
MCMC = ["--mcmc-steps", "300", "--mcmc-burn", "100"]

HEADER = """##fileformat=VCFv4.3
##contig=<ID=chr1,length=100000>
##contig=<ID=chr2,length=100000>
##FILTER=<ID=PASS,Description="All filters passed">
##FILTER=<ID=NOA,Description="No observed alleles at locus">
##FILTER=<ID=AF0,Description="All alleles have prior allele frequency of zero">
##INFO=<ID=AC,Number=A,Type=Integer,Description="x">
##INFO=<ID=REFMASKED,Number=0,Type=Flag,Description="x">
##INFO=<ID=END,Number=1,Type=Integer,Description="x">
##INFO=<ID=NVAR,Number=1,Type=Integer,Description="x">
##INFO=<ID=SNVPOS,Number=.,Type=Integer,Description="x">
##FORMAT=<ID=GT,Number=1,Type=String,Description="Genotype">
##FORMAT=<ID=SQ,Number=1,Type=Integer,Description="x">
##FORMAT=<ID=ACP,Number=R,Type=Float,Description="x">
##FORMAT=<ID=AFP,Number=R,Type=Float,Description="x">
##FORMAT=<ID=SNVDP,Number=.,Type=Integer,Description="x">
"""


# --------------------------------------------------------------------------------------
# decoding a haplotype record the way atomize sees it (pysam: Float fields are float32)
# --------------------------------------------------------------------------------------

def f32(text):
    return Fraction(float(np.float32(text)))


def decode(rec):
    """dict: pos, id, ref, alts (None for '.'), snvpos (None for '.'), samples [{gt, sq, acp, afp, snvdp}]"""
    sp = rec["INFO"].get("SNVPOS", ".")
    out = {"pos": rec["POS"], "id": None if rec["ID"] == "." else rec["ID"], "ref": rec["REF"],
           "alts": rec["ALT"] if rec["ALT"] else None,
           "snvpos": None if sp in (".", True) else [int(x) for x in sp.split(",")], "samples": []}
    for s in rec["samples"]:
        def arr(k):
            if k not in s:
                return None
            return [None if x == "." else f32(x) for x in s[k].split(",")]
        dp = None
        if "SNVDP" in s and out["snvpos"] is not None:      # without SNVs atomize never looks at it
            dp = [None if x == "." else int(x) for x in s["SNVDP"].split(",")]
        out["samples"].append({
            "gt": [None if a == "." else int(a) for a in re.split(r"[/|]", s["GT"])],
            "sq": None if s.get("SQ", ".") == "." else int(s["SQ"]),
            "acp": arr("ACP"), "afp": arr("AFP"), "snvdp": dp})
    return out


def request(d):
    def cells(v):
        return "-" if v is None else ",".join("nan" if x is None else f"{x.numerator}/{x.denominator}" for x in v)
    toks = ["atom", str(d["pos"]), d["id"] or ".", d["ref"], ",".join(d["alts"]) if d["alts"] else ".",
            ",".join(map(str, d["snvpos"])) if d["snvpos"] is not None else "."]
    for s in d["samples"]:
        gt = "/".join("." if a is None else str(a) for a in s["gt"])
        sq = "." if s["sq"] is None else str(s["sq"])
        dp = "-" if s["snvdp"] is None else ",".join(str(x) for x in s["snvdp"])
        toks.append(";".join([gt, sq, cells(s["acp"]), cells(s["afp"]), dp]))
    return " ".join(toks)


def modellable(d):
    """shapes outside the model's input language (not producible by the programs): '.' inside SNVDP"""
    return all(s["snvdp"] is None or all(x is not None for x in s["snvdp"]) for s in d["samples"])


# --------------------------------------------------------------------------------------
# the property statement, evaluated directly
# --------------------------------------------------------------------------------------

def py_block(d):
    """expected lines of one record per the property statement; each line a dict; monomorphic sites carry
    alts == [] (the statement allows omitting them or printing ALT '.')"""
    if d["snvpos"] is None:
        return []
    haps = [d["ref"]] + (d["alts"] or [])
    lines = []
    for k, p in enumerate(d["snvpos"]):
        bases = [h[p - 1] for h in haps]
        alleles = []
        for b in bases:
            if b not in alleles:
                alleles.append(b)
        site = [alleles.index(b) for b in bases]          # numbered by first appearance, REF first
        n_all = len(alleles)
        ac = [0] * n_all
        gts, dss, sdps = [], [], []
        acp_tot = [Fraction(0)] * n_all
        for s in d["samples"]:
            gts.append([None if a is None else site[a] for a in s["gt"]])
            for a in s["gt"]:
                if a is not None:
                    ac[site[a]] += 1
            ploidy = len(s["gt"])
            usable = lambda v: v is not None and all(x is not None for x in v)
            # posterior counts: ACP, else AFP x ploidy; a '.' entry makes the field unknown
            src = s["acp"] if usable(s["acp"]) else ([x * ploidy for x in s["afp"]] if usable(s["afp"]) else None)
            m = None
            if src is not None:
                m = [sum((c for h, c in enumerate(src) if h < len(site) and site[h] == a), Fraction(0)) for a in range(n_all)]
                tot = sum(m)
                m = None if tot == 0 else [x * ploidy / tot for x in m]    # documented normalisation to the ploidy
            dss.append(None if m is None else m[1:])
            acp_tot = None if (m is None or acp_tot is None) else [x + y for x, y in zip(acp_tot, m)]
            sdps.append(None if s["snvdp"] is None else s["snvdp"][k])
        lines.append({"pos": d["pos"] + p - 1, "ref": alleles[0], "alts": alleles[1:], "ac": ac[1:], "acp": acp_tot,
                      "dp": None if any(x is None for x in sdps) else sum(sdps), "ps": d["pos"],
                      "id": f"{d['id']}_SNV{k + 1}" if d["id"] else ".",
                      "gts": gts, "ds": dss, "sdp": sdps, "pq": [s["sq"] for s in d["samples"]]})
    return lines


def num_close(text, want, scale=1):
    if want is None:
        return text == "."
    if text == "." or not re.match(r"^-?[0-9]+(\.[0-9]+)?$", text):
        return False
    return abs(Fraction(text) - want) <= Fraction(1, 2000) + SLACK * max(1, scale)


def row_close(text, wants):
    if wants is None:
        return None
    t = text.split(",")
    if len(wants) == 0:
        return text == "."
    return len(t) == len(wants) and all(num_close(x, w, 10) for x, w in zip(t, wants))


def compare_line(out, want, n_alt_slots=None):
    """list of differences between a printed line (parse_vcf_text record) and an expected line"""
    bad = []
    if out["POS"] != want["pos"]:
        bad.append(f"POS {out['POS']} != {want['pos']}")
    if out["ID"] != want["id"]:
        bad.append(f"ID {out['ID']} != {want['id']}")
    if out["REF"] != want["ref"] or out["ALT"] != want["alts"]:
        bad.append(f"REF/ALT {out['REF']}/{out['ALT']} != {want['ref']}/{want['alts']}")
    info = out["INFO"]
    if info.get("PS") != str(want["ps"]):
        bad.append(f"PS {info.get('PS')} != {want['ps']}")
    ac = info.get("AC", "")
    if ac != (",".join(str(x) for x in want["ac"]) if want["ac"] else "."):
        bad.append(f"AC {ac} != {want['ac']}")
    acp = want["acp"]
    if acp is None:
        if info.get("ACP") != ",".join(["."] * (len(want["alts"]) + 1)):
            bad.append(f"ACP {info.get('ACP')} expected all missing")
    elif not row_close(info.get("ACP", ""), acp):
        bad.append(f"ACP {info.get('ACP')} != {[float(x) for x in acp]}")
    dp = info.get("DP", "")
    if dp != ("." if want["dp"] is None else str(want["dp"])):
        bad.append(f"DP {dp} != {want['dp']}")
    if out["FORMAT"] != ["GT", "GQ", "PQ", "DP", "DS"]:
        bad.append(f"FORMAT {out['FORMAT']}")
        return bad
    if len(out["samples"]) != len(want["gts"]):
        bad.append("number of samples")
        return bad
    for i, s in enumerate(out["samples"]):
        gt = "|".join("." if a is None else str(a) for a in want["gts"][i])
        if s.get("GT") != gt:
            bad.append(f"sample {i} GT {s.get('GT')} != {gt}")
        sdp = want["sdp"][i]
        if s.get("DP") != ("." if sdp is None else str(sdp)):
            bad.append(f"sample {i} DP {s.get('DP')} != {sdp}")
        ds = want["ds"][i]
        if ds is None:
            if s.get("DS") != ",".join(["."] * len(want["alts"])) and not (not want["alts"] and s.get("DS") == "."):
                bad.append(f"sample {i} DS {s.get('DS')} expected missing")
        elif not row_close(s.get("DS", ""), ds):
            bad.append(f"sample {i} DS {s.get('DS')} != {[float(x) for x in ds]}")
    return bad


def parse_model_line(text):
    """model reply of one line -> expected-line dict (same shape as py_block's)"""
    f = text.split(" ")
    pos, id_, ref, alts = int(f[0]), f[1], f[2], ([] if f[3] == "." else f[3].split(","))
    kv = dict(x.split("=", 1) for x in f[4:8])

    def rats(v):
        return [] if v == "." else [None if x == "nan" else C.parse_rat(x) for x in v.split(",")]
    acp = rats(kv["ACP"])
    line = {"pos": pos, "id": id_, "ref": ref, "alts": alts, "ac": [int(x) for x in rats(kv["AC"])],
            "acp": None if any(x is None for x in acp) else acp,
            "dp": None if kv["DP"] == "nan" else int(C.parse_rat(kv["DP"])), "ps": int(kv["PS"]),
            "gts": [], "ds": [], "sdp": [], "pq": []}
    for s in f[8:]:
        gt, pq, dp, ds = s.split(":")
        line["gts"].append([None if a == "." else int(a) for a in gt.split("|")])
        line["pq"].append(None if pq == "." else int(pq))
        line["sdp"].append(None if dp == "nan" else int(C.parse_rat(dp)))
        d = rats(ds)
        line["ds"].append(None if any(x is None for x in d) else d)
    return line


# --------------------------------------------------------------------------------------
# generated records
# --------------------------------------------------------------------------------------

BASES = "ACGT"
ALPHA6 = "ACGTN*"          # N may stand in REF and ALT (reference N), * only in ALT (VCF's spanning-deletion symbol)
SHAPES = ["normal", "normal", "normal", "dots", "no-snv", "no-alt", "mono", "refmasked", "short-acp", "af0", "zero-acp",
          "noa", "partial", "partial", "acp-dot", "afp-dot", "alpha", "alpha", "wide"]
# shapes whose sample columns need both posterior fields
BOTH_FIELDS = ("acp-dot", "afp-dot")


def fmt3(x):
    return f"{x:.3f}".rstrip("0").rstrip(".") or "0"


def gen_record(r, shape, samples, ploidy, fields, pos, idx, chrom="chr1"):
    """one haplotype record line of the given shape; `fields` subset of {ACP, AFP, SNVDP}

    shapes added in round 5: "noa" (REFMASKED, ALT '.', every GT all '.', ACP/AFP 0 or '.', FILTER NOA), "partial"
    ('.' alleles at any position of the GT of several samples), "acp-dot" / "afp-dot" ('.' inside one posterior field
    while the other is complete), "alpha" (alphabet ACGTN*, at most four symbols per site), "five" (one site carries
    five or six symbols), "wide" (5..8 SNVs and 5..8 ALTs), "big" (GT and ACP concentrated on one ALT haplotype, used
    with many samples / high ploidy)."""
    six = shape in ("alpha", "five") or (shape in ("partial", "noa", "acp-dot", "afp-dot", "wide", "big", "dots") and r.random() < 0.25)
    wide = shape == "wide" or (shape in ("alpha", "five", "big", "partial") and r.random() < 0.3)
    L = r.randint(8, 16) if wide else r.randint(4, 12)
    ref = "".join(("N" if (six and r.random() < 0.15) else r.choice(BASES)) for _ in range(L))
    if shape == "no-snv":
        n_snv = 0
    elif wide:
        n_snv = r.randint(5, min(8, L))
    else:
        n_snv = r.randint(1, min(4, L))
    snvpos = sorted(r.sample(range(1, L + 1), n_snv))
    if shape in ("no-snv", "no-alt", "noa"):
        n_alt = 0
    elif shape == "five":
        n_alt = r.randint(4, 7)
    elif wide:
        n_alt = r.randint(5, 8)
    else:
        n_alt = r.randint(1, 4)
    rich = r.choice(snvpos) if (shape == "five" and snvpos) else None
    # the symbols besides the REF base that the listed haplotypes may carry at a site: three (<= 4 symbols per site),
    # all five at the rich site of the "five" shape
    other = {}
    for p in snvpos:
        o = [b for b in (ALPHA6 if six else BASES) if b != ref[p - 1]]
        r.shuffle(o)
        other[p] = o if p == rich else o[:3]
    alts = []
    mono = set()
    if shape == "mono" and snvpos:
        mono = {r.choice(snvpos)} if len(snvpos) > 1 else set(snvpos)
    for _ in range(200):
        if len(alts) >= n_alt:
            break
        h = list(ref)
        for p in snvpos:
            if p in mono:
                continue
            if r.random() < 0.55:
                h[p - 1] = r.choice(other[p])
        h = "".join(h)
        if h != ref and h not in alts:
            alts.append(h)
    if rich is not None and alts:
        # the first ALTs carry pairwise different symbols at the rich site: REF + 4 or 5 further symbols
        k = min(len(alts), r.choice([4, 5]))
        forced = []
        for i in range(k):
            h = list(alts[i])
            h[rich - 1] = other[rich][i]
            forced.append("".join(h))
        merged = []
        for h in forced + alts[k:]:
            if h not in merged:
                merged.append(h)
        alts = merged
    # every site that is not meant to be monomorphic carries an alternative base in some ALT
    for p in snvpos:
        if alts and p not in mono and p != rich and all(h[p - 1] == ref[p - 1] for h in alts):
            for _ in range(20):
                j = r.randrange(len(alts))
                h = list(alts[j])
                h[p - 1] = r.choice(other[p])
                h = "".join(h)
                if h not in alts:
                    alts[j] = h
                    break
    if shape not in ("no-snv", "no-alt", "noa") and not alts:
        # every SNV monomorphic: make the shape explicit (one ALT differing outside SNVPOS is not a haplotype VCF) -> no ALT
        shape = "no-alt"
    if shape == "five" and not any(len({h[p - 1] for h in [ref] + alts}) > 4 for p in snvpos):
        shape = "alpha"
    n_hap = 1 + len(alts)
    info = []
    if shape in ("refmasked", "noa") or (shape in ("dots", "normal", "partial", "alpha", "five", "wide", "big") and r.random() < 0.15):
        info.append("REFMASKED")
    info += [f"END={pos + L - 1}", f"NVAR={n_snv}", "SNVPOS=" + (",".join(map(str, snvpos)) if snvpos else ".")]
    need = set(fields) | ({"ACP", "AFP"} if shape in BOTH_FIELDS else set())
    fmt = ["GT", "SQ"] + [f for f in ("ACP", "AFP", "SNVDP") if f in need]
    cols = []
    lo = 1 if "REFMASKED" in info and n_hap > 1 else 0
    dom = r.randint(max(lo, min(1, n_hap - 1)), n_hap - 1)      # "big": the haplotype most copies are of (an ALT when there is one)
    noa_text = r.choice(["0", "0", "."])
    for s in samples:
        p = ploidy[s]
        if shape in ("af0", "noa"):
            gt = [None] * p
        elif shape == "big":
            gt = sorted(dom if r.random() < 0.85 else r.randint(lo, n_hap - 1) for _ in range(p))
            if r.random() < 0.1:
                gt[r.randrange(p)] = None
        else:
            called = sorted(r.randint(lo, n_hap - 1) for _ in range(p))
            k = 0
            if shape == "dots" or r.random() < 0.15:
                k = r.choice([1, 1, p])
            gt = called[:p - k] + [None] * k
            if shape == "partial" and r.random() < 0.75:
                # '.' at any position, any number of them
                gt = list(called)
                for j in r.sample(range(p), r.randint(1, p)):
                    gt[j] = None
        w = [r.random() if h >= lo else 0.0 for h in range(n_hap)]
        if shape == "big":
            w[dom] += 20.0
        tot = sum(w) or 1.0
        n_keep = n_hap - (1 if (shape == "short-acp" and n_hap > 1) else 0)
        missing_sq = shape == "af0" or (shape == "noa" and r.random() < 0.7)
        vals = {"GT": "/".join("." if a is None else str(a) for a in gt),
                "SQ": "." if missing_sq else str(r.randint(0, 60))}
        if shape == "af0":
            vals.update({"ACP": ".", "AFP": "."})
        elif shape == "noa":
            vals.update({"ACP": noa_text, "AFP": noa_text})
        elif shape == "zero-acp" and r.random() < 0.5:
            vals.update({"ACP": ",".join(["0"] * n_hap), "AFP": ",".join(["0"] * n_hap)})
        else:
            acp = [fmt3(x / tot * p) for x in w[:n_keep]]
            afp = [fmt3(x / tot) for x in w[:n_keep]]
            if shape in BOTH_FIELDS and r.random() < 0.8:
                tgt = acp if shape == "acp-dot" else afp
                mode = r.choice(["one", "one", "all", "single"])
                if mode == "one":
                    tgt[r.randrange(len(tgt))] = "."
                elif mode == "all":
                    tgt[:] = ["."] * len(tgt)
                else:
                    tgt[:] = ["."]
            vals["ACP"] = ",".join(acp)
            vals["AFP"] = ",".join(afp)
        vals["SNVDP"] = ",".join(str(r.randint(0, 40)) for _ in snvpos) if snvpos else "."
        cols.append(":".join(vals[k] for k in fmt))
    filt = {"af0": "AF0", "noa": "NOA"}.get(shape, "PASS")
    line = "\t".join([
        chrom, str(pos), "." if r.random() < 0.1 else f"rec{idx}", ref, ",".join(alts) if alts else ".", ".", filt,
        ";".join(info), ":".join(fmt)] + cols)
    return line, shape


SIZES = {
    None: ((1, 4), [1, 2, 2, 4, 4, 6]),
    "some": ((5, 9), [2, 4, 6, 8, 10]),
    "big100": ((8, 12), [12, 16, 20]),              # AC / ACP totals of a few hundred
    "big1000": ((28, 36), [48, 64]),                # ... above one thousand
}


def gen_file(r, n_rec, shapes=None, fields=None, size=None):
    (lo, hi), pl = SIZES[size]
    n_s = r.randint(lo, hi)
    samples = [f"S{i + 1}" for i in range(n_s)]
    if r.random() < 0.3:
        # legal but unusual sample names: the labels of the fixed VCF columns, a name that is a number, names with punctuation
        odd = ["REF", "ALT", "POS", "ID", "QUAL", "FILTER", "INFO", "FORMAT", "CHROM", "0", "12", "a.b-c", "S1:x"]
        for i in r.sample(range(n_s), min(n_s, r.randint(1, 2))):
            cand = [x for x in odd if x not in samples]
            samples[i] = r.choice(cand)
    ploidy = {s: r.choice(pl) for s in samples}
    if fields is None:
        fields = {f for f in ("ACP", "AFP", "SNVDP") if r.random() < 0.5}
    lines, shp = [], []
    pos = 10
    chrom = "chr1"
    # the records of a file may continue on a second contig
    switch = r.randint(1, n_rec - 1) if (n_rec >= 2 and r.random() < 0.5) else None
    for i in range(n_rec):
        if i == switch:
            chrom, pos = "chr2", r.randint(1, 30)
        shape = r.choice(SHAPES) if shapes is None else shapes[i % len(shapes)]
        line, shape = gen_record(r, shape, samples, ploidy, fields, pos, i, chrom)
        lines.append(line)
        shp.append(shape)
        pos += r.randint(20, 45)
    text = HEADER + "#CHROM\tPOS\tID\tREF\tALT\tQUAL\tFILTER\tINFO\tFORMAT\t" + "\t".join(samples) + "\n" + "\n".join(lines) + "\n"
    return text, shp


def header_only(r):
    n_s = r.randint(1, 5)
    return HEADER + "#CHROM\tPOS\tID\tREF\tALT\tQUAL\tFILTER\tINFO\tFORMAT\t" + "\t".join(f"S{i + 1}" for i in range(n_s)) + "\n"


# --------------------------------------------------------------------------------------
# one atomize run
# --------------------------------------------------------------------------------------

def five_sites(d):
    """0-based indices (into SNVPOS) of the sites at which the listed haplotypes carry more than four symbols"""
    if not d["snvpos"]:
        return []
    haps = [d["ref"]] + (d["alts"] or [])
    return [k for k, p in enumerate(d["snvpos"]) if all(p <= len(h) for h in haps) and len({h[p - 1] for h in haps}) > 4]


def usable_counts(s):
    return any(v is not None and all(x is not None for x in v) for v in (s["acp"], s["afp"]))


def record_classes(d):
    """input classes of one decoded record (evidence histogram)"""
    out = []
    haps = [d["ref"]] + (d["alts"] or [])
    if any(c in "N*" for h in haps for c in h):
        out.append("alphabet:N-or-*")
    if d["snvpos"]:
        m = max(len({h[p - 1] for h in haps}) for p in d["snvpos"] if all(p <= len(h) for h in haps))
        out.append(f"site-symbols:{m if m < 5 else '5+'}")
        if len(d["snvpos"]) > 4:
            out.append("snvs>4")
    if len(haps) > 5:
        out.append("alts>4")
    gts = [s["gt"] for s in d["samples"]]
    if any(None in g and any(a is not None for a in g) for g in gts):
        out.append("gt:partially-called")
    if any(None in g and g[-1] is not None for g in gts):
        out.append("gt:dot-not-last")
    if gts and all(all(a is None for a in g) for g in gts):
        out.append("gt:all-samples-missing" + ("+alts" if d["alts"] else "+no-alt"))
    if len(gts) > 4:
        out.append("samples>4")
    if any(len(g) > 6 for g in gts):
        out.append("ploidy>6")
    dot = lambda v: v is not None and any(x is None for x in v)
    full = lambda v: v is not None and all(x is not None for x in v)
    if any(dot(s["acp"]) and full(s["afp"]) for s in d["samples"]):
        out.append("counts:acp-dot+afp-complete")
    if any(dot(s["afp"]) and full(s["acp"]) for s in d["samples"]):
        out.append("counts:afp-dot+acp-complete")
    return out


def split_five(diff, n_alts):
    """differences of a line at a site with more than four symbols: (attributable to the four allele slots of
    get_sample_snv_ACP = ACP / DS rows, everything else)"""
    if n_alts < 4:
        return [], diff
    slots = [x for x in diff if x.startswith("ACP ") or re.match(r"^sample [0-9]+ DS ", x)]
    return slots, [x for x in diff if x not in slots]


def classify_crash(d, err):
    """signature of a crash: the exception together with the shape predicate of the record that triggered it"""
    haps = [d["ref"]] + (d["alts"] or [])
    if "has no len()" in err and d["alts"] is None and d["snvpos"]:
        return SIG_F8
    if "IndexError" in err and five_sites(d) and any(usable_counts(s) for s in d["samples"]):
        # a 5th symbol at a site while posterior counts are given; F9's crash (an empty allele axis) keeps its own signature
        mono = any(len({h[p - 1] for h in haps}) == 1 for p in d["snvpos"])
        if not (mono and "size 0" in err):
            return SIG_FIVE
    if "IndexError" in err and d["snvpos"] and any(len({h[p - 1] for h in haps}) == 1 for p in d["snvpos"]):
        return SIG_F9
    if "TypeError" in err and "NoneType" in err and any(
            (s["acp"] is not None and None in s["acp"]) or (s["afp"] is not None and None in s["afp"])
            for s in d["samples"]):
        return SIG_ACP
    return "C20/atomize/crash"


class Atomizer:
    def __init__(self, chk, drv, work):
        self.chk, self.drv, self.work = chk, drv, work
        self.n = 0

    def run(self, text, origin, shapes=None, gz=False):
        chk = self.chk
        self.n += 1
        path = S.write_text(os.path.join(self.work, f"in{self.n}.vcf"), text)
        if gz:
            try:
                path = S.bgzip_tabix_vcf(path)
            except Exception:           # noqa: BLE001 - an index is not needed by atomize (e.g. a file without records)
                import pysam
                pysam.tabix_compress(path, path + ".gz", force=True)
                path = path + ".gz"
        chk.count("input:bgzip" if gz else "input:text")
        out, code, err = S.run_program(["mchap", "atomize", path])
        _, recs = S.parse_vcf_text(text)
        if not recs:
            # a haplotype VCF without records: a header, no record, exit 0
            chk.count("input:header-only")
            chk.case({"header-only": text.split("\n")[-2], "gz": gz}, False)
            case = {"origin": origin, "input": text[-600:], "gz": gz}
            try:
                out_header, out_recs = S.parse_vcf_text(out)
            except ValueError as e:
                out_header, out_recs = [], [str(e)]
            names_in = S.vcf_sample_names([l for l in text.split("\n") if l.startswith("#")])
            if code != 0 or out_recs or not out_header or S.vcf_sample_names(out_header) != names_in:
                chk.violation(f"atomize of a haplotype VCF without records: exit {code} {err[:200]}, {len(out_recs)} line(s) printed, "
                              f"sample columns {S.vcf_sample_names(out_header)} (want a header with {names_in}, no record, exit 0)",
                              case, "C20/atomize/header-only")
            return
        try:
            out_header, out_recs = S.parse_vcf_text(out)
        except ValueError as e:
            chk.violation(f"atomize output unparsable: {e}", {"origin": origin, "input": text[-1500:]}, "C20/atomize/unparsable")
            return
        decs = [decode(x) for x in recs]
        usable = [modellable(d) for d in decs]
        answers = self.drv.ask([request(d) for d, u in zip(decs, usable) if u])
        it = iter(answers)
        answers = [next(it) if u else None for u in usable]
        cursor = 0
        crashed_at = None
        for i, (rec, d, ans) in enumerate(zip(recs, decs, answers)):
            shape = shapes[i] if shapes else origin
            chk.count(f"shape:{shape}")
            for c in record_classes(d):
                chk.count(c)
            five = five_sites(d)
            haps = [d["ref"]] + (d["alts"] or [])
            shared = bool(d["snvpos"]) and any(len({h[p - 1] for h in haps}) < len(haps) for p in d["snvpos"])
            nontriv = bool(d["snvpos"]) and len(d["snvpos"]) >= 2 and len(haps) >= 3 and shared and (
                any(None in s["gt"] for s in d["samples"]) or any(s["acp"] is not None or s["afp"] is not None for s in d["samples"]))
            case = {"origin": origin, "shape": shape, "record": rec["line"], "samples_header": rec["sample_names"]}
            want = py_block(d)
            if ans is None:
                chk.count("outside-model-language")
                continue
            chk.case(rec["line"], nontriv, sample={"request": request(d)[:300], "model": ans[:300],
                                                   "impl": [x["line"] for x in out_recs[cursor:cursor + 2]]})
            if ans.startswith("error:"):
                # the model predicts that the program aborts here
                crashed_at = i
                kind = ans.split(":")[1]
                if code == 0 or kind not in err:
                    chk.disagreement(f"model predicts {ans} on this record, atomize returned exit {code} {err[:200]}", {**case, "model": ans})
                if len(out_recs) != cursor:
                    chk.disagreement("atomize printed lines after the record the model aborts on", {**case, "printed": len(out_recs), "expected": cursor})
                if code != 0:
                    sig = classify_crash(d, err)
                    chk.count(f"crash:{sig}")
                    what = "mchap atomize raised on a record shape the calling programs can produce"
                    if sig == SIG_FIVE:
                        what = ("mchap atomize raised on a record with posterior counts and a site carrying more than four symbols "
                                "(four allele slots in get_sample_snv_ACP)")
                    chk.violation(f"{what}: {err[:300]}", {**case, "error": err, "expected_lines": len(want)}, sig)
                break
            model_lines = [] if ans == "none" else [parse_model_line(x) for x in ans.split(" ; ")]
            got = out_recs[cursor:cursor + len(model_lines)]
            cursor += len(model_lines)
            if len(got) != len(model_lines):
                chk.disagreement("atomize printed fewer lines than the model", {**case, "model": ans[:500], "printed": [x["line"] for x in got]})
                if code != 0:
                    chk.violation(f"mchap atomize raised: {err[:300]}", {**case, "error": err}, classify_crash(d, err))
                break
            for g, m in zip(got, model_lines):
                diff = compare_line(g, m)
                if five:
                    # ACP / DS rows of a site with more than four symbols: the model states their R / A length, the code
                    # slices a four-slot array; that deviation is reported by the oracle below under SIG_FIVE
                    slots, diff = split_five(diff, len(m["alts"]))
                    if slots:
                        chk.count("five-symbol-site:model-row-not-compared")
                pq = [s.get("PQ") for s in g["samples"]]
                if pq != ["." if x is None else str(x) for x in m["pq"]]:
                    diff.append(f"PQ {pq} != {m['pq']}")
                if diff:
                    chk.disagreement("atomize line != model line: " + "; ".join(diff[:3]), {**case, "line": g["line"], "model": m})
            # ---- oracle: the statement itself
            poly = [w for w in want if w["alts"]]
            mono = [w for w in want if not w["alts"]]
            printed = {g["POS"]: g for g in got}
            for w in poly:
                g = printed.get(w["pos"])
                if g is None:
                    chk.violation(f"no line at POS + SNVPOS - 1 = {w['pos']}", {**case, "expected": str(w)[:500]}, "C20/atomize/line-missing")
                    continue
                diff = compare_line(g, w)
                if g["CHROM"] != rec["CHROM"]:
                    diff.insert(0, f"CHROM {g['CHROM']} != {rec['CHROM']}")
                slots, diff = split_five(diff, len(w["alts"]))
                if slots:
                    chk.count("five-symbol-site:short-rows")
                    chk.violation("INFO/ACP / FORMAT/DS of a site with more than four symbols do not carry one value per allele "
                                  "(four allele slots in get_sample_snv_ACP): " + "; ".join(slots[:3]),
                                  {**case, "line": g["line"]}, SIG_FIVE)
                if diff:
                    chk.violation("atomize line differs from the per-SNV projection: " + "; ".join(diff[:3]),
                                  {**case, "line": g["line"]}, "C20/atomize/projection")
                for key, vals in (("ac", w["ac"]), ("acp", w["acp"] or [])):
                    top = max(vals, default=0)
                    if top >= 100:
                        chk.count(f"{key}-total>={1000 if top >= 1000 else 100}")
            for w in mono:
                # the statement allows omitting such a site; when it is printed it carries ALT '.' and the projection
                g = printed.get(w["pos"])
                if g is None:
                    chk.count("monomorphic-site-omitted")
                    continue
                chk.count("monomorphic-site-printed")
                diff = compare_line(g, w)
                if g["CHROM"] != rec["CHROM"]:
                    diff.insert(0, f"CHROM {g['CHROM']} != {rec['CHROM']}")
                if diff:
                    chk.violation("line of a site without alternative base differs from the projection: " + "; ".join(diff[:3]),
                                  {**case, "line": g["line"]}, "C20/atomize/projection")
            for w in want:
                g = printed.get(w["pos"])
                if g is None:
                    continue
                pq = [x.get("PQ") for x in g["samples"]]
                if pq != ["." if q is None else str(q) for q in w["pq"]]:
                    bad_text = any(x != "." and not re.match(r"^-?[0-9]+$", x or "") for x in pq)
                    if bad_text:
                        chk.count("pq-None")
                    chk.violation(f"atomize prints FORMAT/PQ (Type=Integer) as {pq} for samples with SQ {w['pq']}",
                                  {**case, "line": g["line"]}, SIG_PQ if bad_text else "C20/atomize/projection")
            extra = set(printed) - {w["pos"] for w in want}
            if extra:
                chk.violation(f"lines at positions that are no SNVPOS of the record: {sorted(extra)}", case, "C20/atomize/extra-lines")
        else:
            if code != 0:
                chk.disagreement(f"atomize raised although the model accepts every record: {err[:300]}", {"origin": origin, "error": err})
            if cursor != len(out_recs):
                chk.disagreement("atomize printed more lines than the model", {"origin": origin, "printed": len(out_recs), "expected": cursor})
        # header sanity: sample names carried over
        if out_header and recs and S.vcf_sample_names(out_header) != recs[0]["sample_names"]:
            chk.violation("atomize changed the sample columns", {"origin": origin}, "C20/atomize/samples")


def single_record_files(text):
    lines = text.split("\n")
    head = [l for l in lines if l.startswith("#")]
    for l in lines:
        if l and not l.startswith("#"):
            yield "\n".join(head + [l]) + "\n"


def unit_indices(chk, drv, r, n):
    """get_haplotype_snv_indices / format_snv_alleles against the model and the first-appearance spec"""
    from mchap.application.atomize import get_haplotype_snv_indices, format_snv_alleles
    reqs, meta = [], []
    for _ in range(n):
        k = r.randint(1, 7)
        col = "".join(r.choice(BASES[:r.randint(1, 4)]) for _ in range(k))
        arr = np.array([[c] for c in col], dtype="U1")
        impl = [int(x) for x in get_haplotype_snv_indices(arr)[:, 0]]
        ref, alts, n_alts = format_snv_alleles(arr)
        reqs.append("atom.idx " + col)
        meta.append((col, impl, str(ref[0]) + str(alts[0]).replace(",", ""), int(n_alts[0])))
    for q, a, (col, impl, alleles, n_alt) in zip(reqs, drv.ask(reqs), meta):
        chk.count("unit:indices")
        chk.case(q, len(set(col)) >= 3)
        m_idx, m_all = a.split(" | ")
        seen = []
        for c in col:
            if c not in seen:
                seen.append(c)
        want = [seen.index(c) for c in col]
        if m_idx != " ".join(map(str, impl)) or m_all != alleles:
            chk.disagreement("get_haplotype_snv_indices / format_snv_alleles != model", {"column": col, "impl": impl, "impl_alleles": alleles, "model": a})
        if impl != want or alleles != "".join(seen) or n_alt != len(seen) - 1:
            chk.violation("site alleles are not numbered by first appearance with REF first", {"column": col, "impl": impl, "alleles": alleles}, "C20/atomize/numbering")


def pipeline_variants(chk, at, work, k, tier):
    """atomize on what the programs write in other modes than the default: a two-contig dataset with up to 7 SNVs per locus
    and deeper coverage (more ALTs); assemble --report AFP ACP SNVDP; call / call-exact with --prior-frequencies AFP
    --filter-input-haplotypes (ALTs and SNVPOS shrink, AF0 / NOA records possible); call-pedigree (FORMAT/PEDERR);
    assemble and call with --sample-pool (pool ploidies 4 and 6)."""
    sub = C.rng(f"{PROP}:wide{k}")
    ds = S.make_dataset(sub, os.path.join(work, f"wide{k}"), n_samples=4 + k % 2, n_loci=4 + k % 3, ploidies=(2, 4), max_snvs=7 + k % 2,
                        features={"nodepth"}, depth=(10, 24), n_contigs=2)
    chk.count("dataset:two-contigs")
    outputs = []

    def prog(tag, argv):
        out, code, err = S.run_program(argv)
        chk.count(f"run:{tag}")
        if code != 0:
            chk.notes.append(f"{tag} failed on the wide dataset {k}: {err[:200]} (C07's business)")
            chk.count(f"run-failed:{tag}")
            return None
        outputs.append((tag, out))
        return out

    asm = prog("assemble --report AFP ACP SNVDP", ds.assemble_argv(*MCMC, "--report", "AFP", "ACP", "SNVDP"))
    if asm is None:
        return
    gz = S.bgzip_tabix_vcf(S.write_text(os.path.join(work, f"wide-asm{k}.vcf"), asm))
    thr = ["AFP>0.05", "AFP>=0.2", "AFP>0.6"][k % 3]
    prior = ["--prior-frequencies", "AFP", "--filter-input-haplotypes", thr]
    prog("call --prior-frequencies --filter-input-haplotypes", ds.call_argv("call", gz, *MCMC, *prior, "--report", "ACP", "SNVDP"))
    prog("call-exact --prior-frequencies --filter-input-haplotypes", ds.call_argv("call-exact", gz, *prior, "--report", "AFP"))
    # thresholds that remove most / all haplotypes (the reference included): records with FILTER NOA, every GT all '.'
    for thr2 in ("AFP>=0.2", "AFP>0.6"):
        if thr2 != thr:
            prog(f"call-exact --filter-input-haplotypes {thr2}", ds.call_argv("call-exact", gz, *prior[:3], thr2, "--report", "AFP", "ACP"))
    # pedigree: parents precede their children, '.' for an unknown parent; gamete ploidies given explicitly (mixed ploidies)
    lines, taus = [], []
    for i, s in enumerate(ds.samples):
        cands = ds.samples[:i]
        p1 = sub.choice(cands) if cands and sub.random() < 0.8 else "."
        p2 = sub.choice(cands) if cands and sub.random() < 0.6 else "."
        lines.append(f"{s}\t{p1}\t{p2}")
        taus.append(f"{s}\t{ds.ploidy[s] // 2}\t{ds.ploidy[s] - ds.ploidy[s] // 2}")
    ped = S.write_text(os.path.join(work, f"wide-ped{k}.txt"), "\n".join(lines) + "\n")
    tau = S.write_text(os.path.join(work, f"wide-tau{k}.txt"), "\n".join(taus) + "\n")
    prog("call-pedigree", ds.call_argv("call-pedigree", gz, *MCMC, "--sample-parents", ped, "--gamete-ploidy", tau,
                                       *(prior[:2] if k % 2 else []), "--report", "AFP", "ACP"))
    # pools: the first two samples and the rest; pool ploidies 4 and 6
    pool = S.write_text(os.path.join(work, f"wide-pool{k}.txt"),
                        "".join(f"{s}\t{'POOL1' if i < 2 else 'POOL2'}\n" for i, s in enumerate(ds.samples)))
    pool_ploidy = S.write_text(os.path.join(work, f"wide-pool-ploidy{k}.txt"), "POOL1\t4\nPOOL2\t6\n")

    def pooled(argv):
        argv = list(argv)
        argv[argv.index("--ploidy") + 1] = pool_ploidy
        return argv + ["--sample-pool", pool]
    prog("assemble --sample-pool", pooled(ds.assemble_argv(*MCMC, "--report", "ACP", "SNVDP")))
    prog("call --sample-pool", pooled(ds.call_argv("call", gz, *MCMC, "--report", "AFP")))
    for j, (tag, text) in enumerate(outputs):
        _, recs = S.parse_vcf_text(text)
        if len({x["CHROM"] for x in recs}) > 1:
            chk.count("pipeline-file:records-on-two-contigs")
        if any("PEDERR" in x["FORMAT"] for x in recs):
            chk.count("pipeline-file:FORMAT/PEDERR")
        for x in recs:
            if x["FILTER"] != "PASS":
                chk.count(f"pipeline-record:FILTER={x['FILTER']}")
        at.run(text, f"{tag}-output(whole file)", gz=(j % 2 == 0))
        for one in single_record_files(text):
            at.run(one, f"{tag}-output")


def run(tier, replay=None):
    chk = C.Check(PROP, tier, MODULE, THEOREMS, RULE, exe="driver_vcf", assumptions=[
        "pysam decoding of the input (Float fields as float32), pandas / numpy text formatting of the output are outside the model; "
        "numeric fields of the output are compared with the exact model values within 1/2000 + 1e-8 (3-decimal rounding)",
        "FORMAT/ACP and FORMAT/AFP are normalised to the ploidy by atomize (documented in its help text); the oracle applies the same normalisation",
        "'.' inside FORMAT/SNVDP (not producible by assemble / call / call-exact when the record has SNVs) is outside the model's input language",
    ])
    chk.prove()
    drv = C.Driver("driver_vcf")
    r = C.rng(PROP)
    work = tempfile.mkdtemp(prefix="c20-")
    try:
        at = Atomizer(chk, drv, work)
        n_files = {"warm": 4, "quick": 120, "thorough": 1200}[tier]
        unit_indices(chk, drv, r, {"warm": 10, "quick": 300, "thorough": 3000}[tier])
        # minimal reproducers of the candidate defects, then every shape on its own, then mixed files
        for shape in ["no-alt", "mono", "af0", "normal", "dots", "no-snv", "refmasked", "short-acp", "zero-acp",
                      "noa", "partial", "acp-dot", "afp-dot", "alpha", "wide"]:
            for fields in ([], ["ACP", "SNVDP"], ["AFP"]) if tier != "warm" else ([],):
                text, shp = gen_file(r, 1, [shape], fields=set(fields))
                at.run(text, "generated", shp)
        for i in range(n_files):
            text, shp = gen_file(r, 1 if r.random() < 0.7 else r.randint(2, 5), size=None if r.random() < 0.85 else "some")
            at.run(text, "generated", shp, gz=r.random() < 0.2)
        # '.' alleles in every shape of GT / posterior field, with both posterior fields and the depths present
        for i in range({"warm": 1, "quick": 12, "thorough": 120}[tier]):
            text, shp = gen_file(r, r.randint(1, 3), ["partial", "noa", "acp-dot", "afp-dot", "af0"][i % 5:] + ["partial"],
                                 fields={"ACP", "AFP", "SNVDP"} if i % 2 == 0 else {"ACP", "AFP"}, size=[None, "some"][i % 2])
            at.run(text, "generated:dots", shp, gz=(i % 4 == 3))
        # many samples / high ploidy: AC and ACP totals of hundreds and thousands
        for i in range({"warm": 1, "quick": 8, "thorough": 60}[tier]):
            size = "big100" if (i % 2 == 0 or tier == "warm") else "big1000"
            text, shp = gen_file(r, r.randint(1, 2), ["big"], fields=[{"ACP", "SNVDP"}, {"AFP"}, {"ACP", "AFP"}, set()][i % 4], size=size)
            chk.count(f"size:{size}")
            at.run(text, f"generated:{size}", shp, gz=(i % 4 == 2))
        # input without records (plain and bgzipped)
        for i in range({"warm": 1, "quick": 4, "thorough": 20}[tier]):
            at.run(header_only(r), "generated:header-only", gz=(i % 2 == 1))
        # the dedicated stream of sites with five / six symbols (A, C, G, T, N, *): one record per file; every finding
        # that stems from the four allele slots of get_sample_snv_ACP carries SIG_FIVE and nothing else
        if FIVE_STREAM:
            five_fields = [["ACP"], ["AFP"], [], ["ACP", "AFP", "SNVDP"], ["SNVDP"]]
            for i in range({"warm": 0, "quick": 20, "thorough": 200}[tier]):
                text, shp = gen_file(r, 1, ["five"], fields=set(five_fields[i % 5]), size=None if i % 3 else "some")
                at.run(text, "generated:five-symbols", shp)
        # real pipeline outputs
        n_ds = {"warm": 1, "quick": 2, "thorough": 6}[tier]
        for k in range(n_ds):
            sub = C.rng(f"{PROP}:ds{k}")
            ds = S.make_dataset(sub, os.path.join(work, f"ds{k}"), n_samples=3, n_loci=4, ploidies=(2, 4), max_snvs=4,
                                features={"nodepth"}, depth=(6, 20))
            rep = [["AFP", "SNVDP"], ["ACP"], [], ["ACP", "AFP", "SNVDP"]][k % 4]
            out, code, err = S.run_program(ds.assemble_argv(*MCMC, *((["--report"] + rep) if rep else [])))
            chk.count("run:assemble")
            if code != 0:
                chk.notes.append(f"assemble failed on dataset {k}: {err[:200]} (C07's business)")
                continue
            outputs = [("assemble", out)]
            gz = S.bgzip_tabix_vcf(S.write_text(os.path.join(work, f"asm{k}.vcf"), out))
            for prog in ("call", "call-exact"):
                extra = MCMC if prog == "call" else []
                rep2 = [["ACP", "SNVDP"], ["AFP"], ["SNVDP"], []][(k + (prog == "call")) % 4]
                o2, c2, e2 = S.run_program(ds.call_argv(prog, gz, *extra, *((["--report"] + rep2) if rep2 else [])))
                chk.count(f"run:{prog}")
                if c2 == 0:
                    outputs.append((prog, o2))
                else:
                    chk.notes.append(f"{prog} failed on dataset {k}: {e2[:200]} (C07's business)")
            for prog, text in outputs:
                at.run(text, f"{prog}-output(whole file)")
                for one in single_record_files(text):
                    at.run(one, f"{prog}-output")
        for k in range({"warm": 0, "quick": 1, "thorough": 4}[tier]):
            pipeline_variants(chk, at, work, k, tier)
        chk.extra["atomize_runs"] = at.n
    finally:
        shutil.rmtree(work, ignore_errors=True)
    return chk.finish()
