"""C02 — the `mchap call` sampler moves are stationary at the posterior call-exact enumerates.

Correspondence: `probabilities_array` filled by `gibbs_options` / `mh_options` (jitted and
`.py_func`) for every allele position of generated states vs the Lean model
(`MCHap/Model/CallMoves.lean`).  Implementation oracles: an independent exact posterior
(Fractions; likelihood formula x Dirichlet-multinomial) -> exact full conditional vs the Gibbs
vector; detailed-balance residual of the MH vector on ordered states; `compound_step` returns a
sorted genotype whose llk equals the recomputed one.
"""
from __future__ import annotations

import itertools
import math
from fractions import Fraction

import numpy as np

from . import common as C
from . import gen as G
from .c05 import exact_dm, gen_freqs, ftoks, f0_product_underflows

PROP = "C02"
MODULE = "MCHap.Properties.C02"
THEOREMS = [
    "MCHap.C02.normalise_sum_one",
    "MCHap.C02.gibbs_sum_one",
    "MCHap.C02.gibbs_is_conditional",
    "MCHap.C02.gibbs_is_conditional_F0",
    "MCHap.C02.allelePrior_none_eq_flat",
    "MCHap.C02.gibbs_flat_eq_explicit",
    "MCHap.C02.gibbs_reversible",
    "MCHap.C02.callW_eq_perms_mul_ordered",
    "MCHap.C02.callW_perm",
    "MCHap.C02.sortAlleles_perm",
    "MCHap.C02.callW_sort",
    "MCHap.C02.mhProbs_entry",
    "MCHap.C02.mh_db",
    "MCHap.C02.call_compound_step_invariant",
    "MCHap.C02.call_sampler_invariant",
    "MCHap.C02.compoundStep_perm_choices",
    "MCHap.C02.compoundWrites_getD_mem",
]
RULE = ("cases: random known-haplotype sets (1..6 haplotypes over 1..4 SNVs, shared and unique SNV patterns), ploidy 1..6, "
        "frequencies {None, flat array, skewed, with zero entries, tiny (1e-3..1e-12)}, inbreeding {0,.01,.25,.5,.9}, reads with gaps/counts "
        "(encoded / free / hard 0-1 calls); pooled samples (ploidy 16..40 over 5..8 haplotypes); panels of 40..300 haplotypes over 5..8 SNVs at "
        "ploidy 2..4; genotype arrays int64 / int32 / int16 and greedy_caller's own int32 output as the current state; every allele "
        "position of a current genotype of positive posterior. The same vectors with the dict cache in use (ploidy up to 12, up to 280 "
        "haplotypes); compound_step as plain Python and compiled (seed_numba) with the cache shared by consecutive steps; mcmc_sampler traces. "
        "Non-trivial: >= 2 haplotypes and (a repeated allele in the genotype or non-flat frequencies). Distinct by request line.")

def rel_of(F):
    """relative tolerance of a probability: with a tiny non-zero inbreeding coefficient the dispersion parameters are ~ 1/F and the
    code's differences of lgamma values lose about eps * lgamma(1/F) ~ 1e-16 * (1/F) * ln(1/F) in the log (2e-5 covers F >= 1e-5)"""
    return 1e-9 if (F == 0 or F >= 1e-3) else 2e-5


INBREEDING = [0.0, 0.01, 0.25, 0.5, 0.9, 0.001, 0.0001, 0.00005, 0.00001]      # incl. tiny non-zero values (not the F = 0 branch)


def gen_call_instance(r, max_haps=6, pooled=False, panel=False, styles=("encoded", "encoded", "free", "hard"), max_reads=6, max_count=3,
                      ploidy=None, n_haps=None):
    """pooled: 16-40 copies spread over 5-8 haplotypes; panel: 40-300 known haplotypes over 5-8 SNVs at ploidy 2-4"""
    n_base = r.randint(1, 4) if not pooled else r.randint(3, 4)
    if panel:
        n_base = r.randint(5, 8)
    n_alleles = G.gen_n_alleles(r, n_base)
    if panel:
        n_alleles = [r.choice([2, 3, 4]) for _ in range(n_base)]       # >= 2^5 .. 4^8 possible haplotypes
    want = n_haps
    n_haps = r.randint(1, max_haps) if not pooled else r.randint(5, 8)
    if panel:
        n_haps = min(r.choice([40, 70, 130, 257, 300, 300]), int(np.prod(n_alleles)) - 1)
    if want is not None:
        n_haps = min(want, int(np.prod(n_alleles)))
    seen, haps = set(), []
    for _ in range(n_haps * 4):
        h = tuple(G.gen_haplotype(r, n_alleles))
        if h not in seen:
            seen.add(h); haps.append(list(h))
        if len(haps) == n_haps:
            break
    n = len(haps)
    ploidy_ = r.choice([1, 2, 2, 3, 4, 4, 6]) if not pooled else r.choice([16, 21, 24, 30, 32, 40])
    if panel:
        ploidy_ = r.choice([2, 3, 4])
    ploidy = ploidy_ if ploidy is None else ploidy
    kind, freqs = gen_freqs(r, n)
    F = r.choice(INBREEDING) if not pooled else r.choice([0.0, 0.0, 0.1])
    allowed = [a for a in range(n) if freqs is None or freqs[a] > 0]
    pool = [r.choice(allowed) for _ in range(max(1, ploidy // 2))] if r.random() < 0.6 else allowed
    alleles = [r.choice(pool) for _ in range(ploidy)]
    if pooled:
        # a pooled sample: many copies spread evenly over the haplotypes (the number of orderings of such a genotype
        # exceeds 2^63 from ploidy 21 on)
        alleles = [allowed[i % len(allowed)] for i in range(ploidy)]
        r.shuffle(alleles)
    truth = [haps[a] for a in alleles]
    reads, counts = G.gen_reads(r, n_alleles, r.randint(0, max_reads), haps=truth if r.random() < 0.8 else None,
                                gap=r.choice([0.0, 0.25]), style=r.choice(list(styles)), max_count=max_count)
    if len(counts) == 0:
        reads = np.full((1, n_base, max(n_alleles)), np.nan); counts = np.array([1], dtype=np.int64)
    return n_alleles, haps, ploidy, kind, freqs, F, alleles, reads, counts


def call_tokens(reads, counts, haps, F, freqs):
    return G.reads_tokens(reads, counts) + G.genotype_tokens(haps) + [C.rat_str(F)] + ftoks(freqs, len(haps))


def exact_w(reads, counts, haps, F, freqs, alleles):
    """independent exact (likelihood x prior) of an unordered genotype"""
    return G.exact_lik(reads, counts, [haps[a] for a in alleles]) * exact_dm(sorted(alleles), len(haps), F, freqs)


def n_perms(alleles):
    out = math.factorial(len(alleles))
    for a in set(alleles):
        out //= math.factorial(list(alleles).count(a))
    return out


def wiring(chk, r, n, drv):
    """what the call sampler's layers hand to each other.  The Python source of `compound_step`, `mcmc_sampler` and
    `CallingMCMC.fit` is run with its callee replaced by a recorder: the kernels are verified on arguments the harness
    chooses, so it remains to see that the callers hand over the sample's own reads / counts / inbreeding / frequencies /
    haplotypes, visit every allele copy once per compound step, and record what the callee returned."""
    import inspect
    from mchap.calling import mcmc
    from mchap.calling import classes as ccls

    def same(a, b):
        if a is None or b is None:
            return a is None and b is None
        a, b = np.asarray(a), np.asarray(b)
        return a.shape == b.shape and bool(np.array_equal(a, b, equal_nan=(a.dtype.kind == "f")))

    model_reqs = []
    for it in range(n):
        big = it % 5 == 4          # panels of 40-300 haplotypes / pooled ploidies: ploidy x haplotypes far above 128
        n_alleles, haps, ploidy, kind, freqs, F, alleles, reads, counts = \
            gen_call_instance(r, max_haps=6, panel=big and it % 10 == 4, pooled=big and it % 10 == 9)
        if len(haps) < 2:
            continue
        if it % 3 == 0:
            freqs = None
        if F == 0:
            F = r.choice([0.0, 0.15, 0.4]) if not big else r.choice([0.15, 0.4])
        if big:
            chk.count("wiring:large-instance(ploidy x haplotypes > 128)" if ploidy * len(haps) > 128 else "wiring:large-instance-not-above-128")
        harr = np.array(haps, dtype=np.int8)
        st = it % 2
        n_h = len(haps)
        passed = {"haplotypes": harr, "reads": reads, "read_counts": counts, "inbreeding": F, "frequencies": freqs}
        case = {"ploidy": ploidy, "n_haplotypes": n_h, "step_type": st, "inbreeding": F, "frequencies": None if freqs is None else freqs.tolist(),
                "read_counts": counts.tolist()}

        def wrong(d, names):
            for k in names:
                v, w = passed[k], d.get(k)
                if (isinstance(v, float) and not (isinstance(w, (int, float, np.floating)) and float(w) == v)) or \
                        (not isinstance(v, float) and not same(v, w)):
                    return k
            return None

        # ---- compound_step -> gibbs_options / mh_options
        f = mcmc.compound_step.py_func
        g = f.__globals__
        orig = {k: g[k] for k in ("gibbs_options", "mh_options")}
        sigs = {k: inspect.signature(orig[k].py_func) for k in orig}
        calls = []

        def make(kind_):
            def rec(*a, **kw):
                d = dict(sigs[kind_].bind(*a, **kw).arguments)
                calls.append((kind_, d, d["genotype_alleles"].copy()))
                d["probabilities_array"][:] = 1.0 / n_h
                d["llks_array"][:] = 1000.0 + np.arange(n_h)
                d["lpriors_array"][:] = 0.0
            return rec
        geno = np.array(sorted(alleles), dtype=np.int64)
        before = geno.copy()
        cache_obj = {-1: float("nan")}
        g["gibbs_options"], g["mh_options"] = make("gibbs_options"), make("mh_options")
        try:
            np.random.seed(r.randrange(2 ** 31))
            ret = f(geno, harr, reads, counts, F, frequencies=freqs, llk_cache=cache_obj, step_type=st)
        finally:
            g.update(orig)
        chk.count("wiring:compound_step")
        chk.case(("wiring", "compound", it, ploidy, n_h, st), ploidy >= 2)
        want_kind = "gibbs_options" if st == 0 else "mh_options"
        slots = [int(d["variable_allele"]) for _, d, _ in calls]
        bad = None
        if [k for k, _, _ in calls] != [want_kind] * ploidy:
            bad = "the kernel of the requested step type is not called once per allele copy"
        elif sorted(slots) != list(range(ploidy)):
            bad = "the allele copies updated in one compound step are not every copy exactly once"
        else:
            cur = before.copy()
            for j, (_, d, seen) in enumerate(calls):
                w = wrong(d, ("haplotypes", "reads", "read_counts", "inbreeding", "frequencies"))
                if w:
                    bad = f"the kernel is handed a {w} that is not the one compound_step was called with"
                    break
                if d.get("llk_cache") is not cache_obj:
                    bad = "the kernel is not handed the likelihood cache compound_step was called with"
                    break
                if d["genotype_alleles"] is not geno:
                    bad = "the kernel is not handed the genotype array that is updated in place"
                    break
                if not np.array_equal(seen, cur):
                    bad = "the genotype a kernel sees is not the genotype left by the previous updates of this compound step"
                    break
                # the update that followed this call: slot k takes the drawn allele (only that slot may change)
                nxt = calls[j + 1][2] if j + 1 < len(calls) else None
                if nxt is not None:
                    diff = np.nonzero(nxt != cur)[0].tolist()
                    if any(x != slots[j] for x in diff):
                        bad = "an update changes a copy other than the one its kernel was computed for"
                        break
                    cur = nxt
            if bad is None:
                if not np.array_equal(geno, np.sort(geno)):
                    bad = "the genotype is not sorted after the compound step"
                elif not (1000.0 <= float(ret) < 1000.0 + n_h and int(round(float(ret) - 1000.0)) in geno.tolist()):
                    bad = "the value returned is not the kernel's likelihood entry of an allele now in the genotype"
        if not bad and len(calls) == ploidy:
            # the model of the step (compoundStep: the writes in the order of the shuffle, then the sort) on the same order and draws
            draws = [int(calls[j + 1][2][slots[j]]) for j in range(ploidy - 1)] + [int(round(float(ret) - 1000.0))]
            model_reqs.append(("call.compound %d " % ploidy + " ".join(str(int(x)) for x in list(before) + slots + draws),
                               geno.tolist(), {**case, "order": slots, "draws": draws, "before": before.tolist()}))
        if bad:
            # how the arrays travel (in place or by copy, one kernel call per copy) is the structure this stream observes the
            # code through, not the property: a difference there is a broken correspondence; wrong values are violations
            structural = bad.startswith(("the kernel is not handed the genotype array", "the kernel of the requested step type",
                                         "the kernel is not handed the likelihood cache"))
            rep = {**case, "slots": slots, "before": before.tolist(), "after": geno.tolist(), "returned": float(ret)}
            if structural:
                chk.disagreement("compound_step (call sampler): " + bad, rep)
            else:
                chk.violation("compound_step (call sampler): " + bad, rep, "C02/wiring/compound_step")

        # ---- inside a compound step every copy is drawn from the vector of the state as it is at that moment: the real kernels
        # run, wrapped; each result is compared with the kernel run afresh on the current state with the standard arguments alone
        std = ("genotype_alleles", "variable_allele", "haplotypes", "reads", "read_counts", "inbreeding", "llks_array", "lpriors_array",
               "probabilities_array", "frequencies", "llk_cache")
        stale = []

        def wrap(kind_):
            real = orig[kind_]

            def f_(*a, **kw):
                d = dict(sigs[kind_].bind(*a, **kw).arguments)
                out = real(*a, **kw)
                fa = {k_: d.get(k_) for k_ in std}
                fa["genotype_alleles"] = d["genotype_alleles"].copy()
                for k_ in ("llks_array", "lpriors_array", "probabilities_array"):
                    fa[k_] = np.full_like(d[k_], np.nan)
                fa["llk_cache"] = None
                real(**fa)
                if not np.allclose(d["probabilities_array"], fa["probabilities_array"], rtol=rel_of(F), atol=1e-12, equal_nan=True):
                    stale.append({"slot": int(d["variable_allele"]), "state": d["genotype_alleles"].tolist(),
                                  "used": d["probabilities_array"].tolist(), "of_the_current_state": fa["probabilities_array"].tolist()})
                return out
            return f_
        geno2 = np.array(sorted(alleles), dtype=np.int64)
        l0_ = float(mcmc.log_likelihood_alleles(reads, counts, harr, geno2)) if hasattr(mcmc, "log_likelihood_alleles") else 0.0
        if math.isfinite(l0_) and not (F == 0 and f0_product_underflows(alleles, freqs)):
            g["gibbs_options"], g["mh_options"] = wrap("gibbs_options"), wrap("mh_options")
            try:
                np.random.seed(r.randrange(2 ** 31))
                for _ in range(3):
                    try:
                        f(geno2, harr, reads, counts, F, frequencies=freqs, llk_cache=None, step_type=st)
                    except (AssertionError, ValueError, ZeroDivisionError):
                        break
            finally:
                g.update(orig)
            chk.count("wiring:vectors-inside-a-compound-step")
            if stale:
                chk.violation("inside a compound step an allele is drawn from a vector that is not the Gibbs / MH vector of the state at "
                              "that moment", {**case, **stale[0], "n_updates_affected": len(stale)}, "C02/wiring/stale-vector")

        # ---- mcmc_sampler -> compound_step
        f2 = mcmc.mcmc_sampler.py_func
        g2 = f2.__globals__
        orig_c = g2["compound_step"]
        sig_c = inspect.signature(orig_c.py_func)
        calls2 = []

        def rec_c(*a, **kw):
            d = dict(sig_c.bind(*a, **kw).arguments)
            ga = d["genotype_alleles"]
            calls2.append((d, ga.copy()))
            ga[:] = np.sort((ga + 1 + len(calls2)) % n_h)
            return -float(len(calls2))
        n_steps = 4
        use_cache = bool(it % 2)
        init = before.copy()
        g2["compound_step"] = rec_c
        try:
            tr_g, tr_l = f2(init, harr, reads, counts, F, frequencies=freqs, n_steps=n_steps, cache=use_cache, step_type=st)
        finally:
            g2["compound_step"] = orig_c
        chk.count("wiring:mcmc_sampler")
        chk.case(("wiring", "sampler", it, ploidy, n_h, st, use_cache), True)
        bad = None
        if len(calls2) != n_steps:
            bad = "not one compound step per recorded step"
        elif not np.array_equal(init, before):
            bad = "the caller's initial genotype is modified"
        else:
            cur = before.copy()
            cache0 = calls2[0][0].get("llk_cache")
            for j, (d, seen) in enumerate(calls2):
                w = wrong(d, ("haplotypes", "reads", "read_counts", "inbreeding", "frequencies"))
                if w:
                    bad = f"compound_step is handed a {w} that is not the one mcmc_sampler was called with"
                    break
                if int(d.get("step_type", 0)) != st:
                    bad = "compound_step is not handed the requested step type"
                    break
                if not np.array_equal(seen, cur):
                    bad = "a compound step does not start from the state the previous one left"
                    break
                c_ = d.get("llk_cache")
                if (use_cache and (c_ is None or c_ is not cache0)) or (not use_cache and c_ is not None):
                    bad = "the likelihood cache handed to the compound steps is not one cache per run (or is used although switched off)"
                    break
                cur = np.sort((seen + 1 + (j + 1)) % n_h)
                if not np.array_equal(np.asarray(tr_g[j]), cur) or float(tr_l[j]) != -float(j + 1):
                    bad = "the trace does not record the state and likelihood the compound step left"
                    break
        if bad:
            chk.violation("mcmc_sampler (call sampler): " + bad, {**case, "cache": use_cache}, "C02/wiring/mcmc_sampler")

        # ---- CallingMCMC.fit -> greedy_caller / mcmc_sampler
        gm = ccls.CallingMCMC.fit.__globals__
        orig_m, orig_g = gm["mcmc_sampler"], gm["greedy_caller"]
        sig_m, sig_g = inspect.signature(orig_m.py_func), inspect.signature(orig_g.py_func)
        calls3, calls_g = [], []
        start = np.array(sorted(r.randrange(n_h) for _ in range(ploidy)), dtype=np.int32)

        def rec_m(*a, **kw):
            d = dict(sig_m.bind(*a, **kw).arguments)
            calls3.append(d)
            k = len(calls3)
            return np.full((int(d["n_steps"]), ploidy), k % n_h, dtype=np.int32), np.full(int(d["n_steps"]), -float(k))

        def rec_g(*a, **kw):
            calls_g.append(dict(sig_g.bind(*a, **kw).arguments))
            return start
        n_chains, steps = r.choice([1, 2, 3]), 5
        gm["mcmc_sampler"], gm["greedy_caller"] = rec_m, rec_g
        try:
            model = ccls.CallingMCMC(ploidy=ploidy, haplotypes=harr, inbreeding=F, frequencies=freqs, steps=steps, chains=n_chains,
                                     random_seed=11, step_type="Gibbs" if st == 0 else "Metropolis-Hastings")
            given = (it % 4 == 1)
            tr = model.fit(reads, read_counts=counts, initial=start.copy() if given else None)
        finally:
            gm["mcmc_sampler"], gm["greedy_caller"] = orig_m, orig_g
        chk.count("wiring:CallingMCMC.fit")
        chk.case(("wiring", "fit", it, ploidy, n_h, st, n_chains, given), True)
        bad = None
        if len(calls3) != n_chains:
            bad = "not one sampler run per chain"
        elif (len(calls_g) != 0) if given else (len(calls_g) != 1):
            bad = "the initial state is not the given one / not taken once from greedy_caller"
        else:
            for d in calls_g:
                w = wrong(d, ("haplotypes", "reads", "read_counts", "inbreeding"))
                if w or int(d["ploidy"]) != ploidy:
                    bad = f"greedy_caller is handed a {w or 'ploidy'} that is not the model's / the sample's"
            for k, d in enumerate(calls3):
                w = wrong(d, ("haplotypes", "reads", "read_counts", "inbreeding", "frequencies"))
                if w:
                    bad = f"mcmc_sampler is handed a {w} that is not the model's / the sample's"
                elif int(d["n_steps"]) != steps or int(d.get("step_type", 0)) != st:
                    bad = "mcmc_sampler is not handed the model's number of steps / step type"
                elif not np.array_equal(np.asarray(d["genotype_alleles"]), start):
                    bad = "a chain does not start from the initial state"
                elif not (np.asarray(tr.genotypes[k]) == (k + 1) % n_h).all() or not (np.asarray(tr.llks[k]) == -float(k + 1)).all():
                    bad = "the trace does not hold what the chains returned, chain by chain"
        if bad:
            chk.violation("CallingMCMC.fit: " + bad, {**case, "chains": n_chains, "initial_given": given}, "C02/wiring/fit")
    for (req, impl, case_), a in zip(model_reqs, drv.ask([q for q, _, _ in model_reqs])):
        chk.count("wiring:compound_step-vs-model")
        chk.case(req, len(impl) >= 2)
        if a != " ".join(str(x) for x in impl):
            chk.disagreement("compound_step: the genotype after the step != model compoundStep on the same order and draws",
                             {**case_, "impl": impl, "model": a})


def run(tier, replay=None):
    from mchap.calling import mcmc

    chk = C.Check(PROP, tier, MODULE, THEOREMS, RULE, assumptions=[
        "float64 log-space evaluation is compared at rel 1e-9, not proved",
        "the current genotype has positive posterior probability (states the sampler can reach); vectors from zero-posterior states are counted, not compared",
        "F = 0 with explicit frequencies: the code multiplies the frequencies of a genotype in float64; products below 1e-300 underflow "
        "(numerical range of the implementation: counted, not compared)",
        "irreducibility / convergence is not claimed; the theorems are conditional-exactness, reversibility and detailed balance",
    ])
    chk.prove()
    drv = C.Driver()
    r = C.rng(PROP)
    import time
    t_sec = [time.time()]

    def lap(name):
        chk.extra.setdefault("section_seconds", {})[name] = round(time.time() - t_sec[0], 1)
        t_sec[0] = time.time()
    n_cases = {"warm": 3, "quick": 220, "thorough": 2500}[tier]
    n_panel = {"warm": 1, "quick": 8, "thorough": 80}[tier]
    GDT = [np.int64, np.int64, np.int32, np.int32, np.int16]

    insts, lines, meta = [], [], []
    for i in range(n_cases + n_panel):
        if i >= n_cases:
            inst = gen_call_instance(r, panel=True)
        elif i % 15 == 7:
            inst = gen_call_instance(r, max_haps=8, pooled=True)
        else:
            inst = gen_call_instance(r)
        n_alleles, haps, ploidy, kind, freqs, F, alleles, reads, counts = inst
        dt, origin = r.choice(GDT), "generated"
        if i % 4 == 1 and len(haps) >= 2:
            # the state the sampler really starts from: greedy_caller's own output (its dtype, its order)
            try:
                g0 = mcmc.greedy_caller(np.array(haps, dtype=np.int8), ploidy, reads, counts, F, freqs)
                if (g0 >= 0).all() and (freqs is None or all(freqs[a] > 0 for a in g0)):
                    alleles, dt, origin = [int(a) for a in g0], g0.dtype.type, "greedy_caller"
                else:
                    chk.count("greedy_caller:no-call(-1 alleles: every haplotype has zero likelihood; observation)")
            except Exception as e:   # noqa: BLE001
                chk.violation(f"greedy_caller raises on a valid input: {type(e).__name__}: {e}",
                              {"haplotypes": haps, "ploidy": ploidy, "inbreeding": F}, "C02/greedy/raises")
        inst = (n_alleles, haps, ploidy, kind, freqs, F, alleles, reads, counts)
        toks = call_tokens(reads, counts, haps, F, freqs)
        for k in (range(ploidy) if ploidy <= 8 and i < n_cases else sorted(r.sample(range(ploidy), 2))):
            for op in ("call.gibbs", "call.mh"):
                lines.append(" ".join([op] + toks + [str(k)] + [str(a) for a in alleles]))
                meta.append((i, k, op, dt, origin))
        insts.append(inst)
    ans = drv.ask(lines)

    exact_cache = {}
    for (i, k, op, dt, origin), a, line in zip(meta, ans, lines):
        n_alleles, haps, ploidy, kind, freqs, F, alleles, reads, counts = insts[i]
        n = len(haps)
        harr = np.array(haps, dtype=np.int8)
        model = [float(C.parse_rat(x)) for x in a.split()]
        fn = mcmc.gibbs_options if op == "call.gibbs" else mcmc.mh_options
        nontriv = n >= 2 and (len(set(alleles)) < len(alleles) or kind in ("skew", "zeros", "tiny"))
        shape = "panel" if i >= n_cases else ("pooled" if ploidy >= 16 else "small")
        chk.count(op); chk.count(f"F={F}"); chk.count(f"freq={kind}"); chk.count(f"ploidy={ploidy}")
        chk.count(f"genotype-dtype={np.dtype(dt)}"); chk.count(f"state-from={origin}"); chk.count(f"shape={shape}")
        if shape == "panel":
            chk.count(f"panel:n_haplotypes~{n // 50 * 50}")
        case = {"op": op, "haplotypes": haps if n <= 12 else f"{n} haplotypes (first 12: {haps[:12]})", "alleles": alleles, "dtype": str(np.dtype(dt)),
                "position": k, "inbreeding": F, "frequencies": None if freqs is None else freqs.tolist()[:40], "counts": counts.tolist(),
                "reads": [[[None if math.isnan(x) else x for x in row] for row in rd] for rd in reads.tolist()]}
        if n == 1 and op == "call.mh":
            # a single haplotype: the code divides by n_alleles - 1 = 0; nothing to compare (never sampled: see call.py)
            chk.count("skipped:mh-single-haplotype")
            continue

        def W(al):
            kk = (i, tuple(sorted(al)))
            if kk not in exact_cache:
                exact_cache[kk] = exact_w(reads, counts, haps, F, freqs, list(al))
            return exact_cache[kk]
        variants = []
        for x in range(n):
            al = list(alleles); al[k] = x
            variants.append(al)
        ws = [W(al) / n_perms(al) for al in variants]
        tot = sum(ws)
        # states the sampler cannot be in / vectors that are undefined (hard 0/1 reads give zero likelihoods)
        if op == "call.gibbs" and tot == 0:
            chk.count("skipped:gibbs-every-option-has-zero-posterior")
            continue
        if op == "call.mh" and ws[alleles[k]] == 0:
            chk.count("skipped:mh-current-state-has-zero-posterior")
            continue
        if op == "call.mh" and F == 0 and freqs is not None and any(f0_product_underflows(al, freqs) for al in variants):
            # numerical range of the implementation: the float64 product of the allele frequencies of one genotype is 0 / denormal
            chk.count("numeric:F0-frequency-product-underflow(observed, not compared)")
            continue
        vecs = {}
        for name, f in (("jit", fn), ("py", fn.py_func)):
            g = np.array(alleles, dtype=dt)
            llks = np.full(n, np.nan); lpriors = np.full(n, np.nan); probs = np.full(n, np.nan)
            try:
                f(g, k, harr, reads, counts, F, llks, lpriors, probs, frequencies=freqs, llk_cache=None)
            except Exception as e:   # noqa: BLE001
                chk.violation(f"{op} ({name}) raises on a reachable state: {type(e).__name__}: {e}", case, "C02/options/raises")
                probs[:] = np.nan
            vecs[name] = probs.tolist()
            if g.tolist() != alleles:
                chk.violation(f"{op} does not restore the current allele", {"alleles": alleles, "after": g.tolist()}, "C02/options/restore")
        chk.case(line, nontriv, sample={"request": line[:240], "impl": vecs["jit"][:12], "model": model[:12]})
        for name in ("jit", "py"):
            v = vecs[name]
            if len(v) != len(model) or any(not C.close(x, y, rel=rel_of(F), abs_=1e-12) for x, y in zip(v, model)):
                chk.disagreement(f"{op} probabilities ({name}) != model", {**case, "impl": v[:40], "model": model[:40]})
                break
        # ---------------- oracles on the implementation
        v = vecs["jit"]
        if op == "call.gibbs":
            for x in range(n):
                exp = float(ws[x] / tot)
                if not C.close(v[x], exp, rel=10 * rel_of(F), abs_=1e-12):
                    chk.violation("Gibbs probability is not the exact full conditional of the call-exact posterior",
                                  {**case, "allele": x, "impl": v[x], "expected": exp}, "C02/gibbs/conditional")
                    break
        else:
            cur = alleles[k]
            pio = ws[cur]
            back_for = set(range(n)) if n <= 40 else set(r.sample(range(n), 15))
            for x in range(n):
                if x == cur:
                    continue
                al = variants[x]
                if ws[x] == 0:
                    if v[x] != 0.0:
                        chk.violation("MH proposes a zero-posterior genotype with positive probability", {**case, "allele": x, "impl": v[x]},
                                      "C02/mh/zero-posterior")
                    continue
                if x not in back_for:
                    continue
                g2 = np.array(al, dtype=dt)
                llks = np.full(n, np.nan); lpriors = np.full(n, np.nan); probs = np.full(n, np.nan)
                mcmc.mh_options(g2, k, harr, reads, counts, F, llks, lpriors, probs, frequencies=freqs, llk_cache=None)
                back = float(probs[cur])
                # flows relative to the current state's posterior mass (the absolute masses can be far below float64 range)
                fa = v[x]
                try:
                    fb = float(ws[x] / pio) * back
                except OverflowError:
                    fb = math.inf if back > 0 else 0.0
                if not (fa == fa and fb == fb) or (abs(fa - fb) > 1e-8 * max(fa, fb) + 1e-300):   # NaN flows fail too
                    chk.violation("MH move violates detailed balance w.r.t. the call-exact posterior",
                                  {**case, "allele": x, "K_forward": fa, "pi'/pi*K_backward": fb}, "C02/mh/db")
                    break

    lap("kernels")
    # ---------------- the same vectors with the sampler's likelihood cache in use (shared across states, high ploidy / many haplotypes)
    from numba import types
    from numba.typed import Dict as NDict
    from mchap.calling.likelihood import log_likelihood_alleles
    from mchap.jitutils import seed_numba, index_as_genotype_alleles
    n_hi = {"warm": 2, "quick": 7, "thorough": 42}[tier]
    HI = [(10, 3, 3), (12, 8, 3), (9, 3, 3), (4, 40, 6), (12, 2, 3), (6, 4, 3), (3, 280, 9)]       # (ploidy, haplotypes, biallelic SNVs)
    for it in range(n_hi):
        ploidy, n_h, nb = HI[(it + 1) % len(HI)] if tier == "warm" else HI[it % len(HI)]
        seen, haps = set(), []
        for _ in range(60 * n_h):
            h = tuple(r.randrange(2) for _ in range(nb))
            if h not in seen:
                seen.add(h); haps.append(list(h))
            if len(haps) == n_h:
                break
        harr = np.array(haps, dtype=np.int8); n = len(haps)
        reads, counts = G.gen_reads(r, [2] * nb, 5, haps=haps, gap=0.1, style="encoded")
        F = r.choice([0.0, 0.1, 0.5]); kind, freqs = gen_freqs(r, n)
        allowed = [a for a in range(n) if freqs is None or freqs[a] > 0]
        cache = NDict.empty(types.int64, types.float64); cache[-1] = np.nan
        states = [[r.choice(allowed) for _ in range(ploidy)] for _ in range(12 if n <= 100 else 4)]
        dt = r.choice([np.int64, np.int32])
        lines, meta = [], []
        toks = call_tokens(reads, counts, haps, F, freqs)
        for st in states:
            for k in range(0, ploidy, 3):
                for op in ("call.gibbs", "call.mh"):
                    lines.append(" ".join([op] + toks + [str(k)] + [str(a) for a in st])); meta.append((st, k, op))
        ans = drv.ask(lines)
        for (st, k, op), a, line in zip(meta, ans, lines):
            model = [float(C.parse_rat(x)) for x in a.split()]
            fn = mcmc.gibbs_options if op == "call.gibbs" else mcmc.mh_options
            g = np.array(st, dtype=dt)
            llks = np.full(n, np.nan); lpriors = np.full(n, np.nan); probs = np.full(n, np.nan)
            chk.count(op + ":cached"); chk.count(f"cached:ploidy={ploidy},haplotypes={n}"); chk.count(f"cached:genotype-dtype={np.dtype(dt)}")
            chk.case(line, True)
            try:
                fn(g, k, harr, reads, counts, F, llks, lpriors, probs, frequencies=freqs, llk_cache=cache)
            except Exception as e:   # noqa: BLE001
                chk.violation(f"{op} raises with the likelihood cache in use: {type(e).__name__}: {e}",
                              {"n_haplotypes": n, "alleles": st, "position": k, "inbreeding": F, "dtype": str(np.dtype(dt))}, "C02/options/raises")
                continue
            if n == 1 and op == "call.mh":
                continue
            if op == "call.mh" and F == 0 and freqs is not None and any(
                    f0_product_underflows(st[:k] + [x] + st[k + 1:], freqs) for x in range(n)):
                chk.count("numeric:F0-frequency-product-underflow(observed, not compared)")
                continue
            if any(not C.close(x, y, rel=rel_of(F), abs_=1e-12) for x, y in zip(probs.tolist(), model)):
                chk.disagreement(f"{op} probabilities with the likelihood cache in use != model",
                                 {"haplotypes": haps, "alleles": st, "position": k, "inbreeding": F, "impl": probs.tolist(), "model": model})
                # the property's own oracle: the cached vector must equal the uncached one (which is checked against the exact conditional above)
                probs2 = np.full(n, np.nan)
                fn(np.array(st, dtype=dt), k, harr, reads, counts, F, np.full(n, np.nan), np.full(n, np.nan), probs2, frequencies=freqs, llk_cache=None)
                if any(not C.close(x, y, rel=rel_of(F), abs_=1e-12) for x, y in zip(probs.tolist(), probs2.tolist())):
                    chk.violation("the move distribution of the call sampler changes when its likelihood cache is in use",
                                  {"haplotypes": haps, "alleles": st, "position": k, "with_cache": probs.tolist(), "without": probs2.tolist()},
                                  "C02/options/cache-dependence")
        lap(f"cached-kernels:{ploidy}x{n}")

    lap("cached-kernels")
    # ---------------- compound_step: result sorted, returned llk = llk of the final genotype; plain Python without a cache,
    # and the compiled step (numba RNG seeded with seed_numba) with the sampler's dict cache shared by consecutive steps,
    # on small and on pooled instances
    def check_state(g, llk, freqs, harr, reads, counts, what, extra):
        if g.tolist() != sorted(g.tolist()):
            chk.violation(f"{what} leaves the genotype unsorted", {"alleles": g.tolist(), **extra}, "C02/compound/sorted")
        if (g < 0).any() or (g >= len(harr)).any():
            chk.violation(f"{what} moved to an allele that is not a known haplotype", {"alleles": g.tolist(), **extra}, "C02/compound/range")
            return
        if freqs is not None and any(freqs[a] == 0 for a in g):
            chk.violation(f"{what} moved to an allele with zero prior frequency", {"alleles": g.tolist(), "frequencies": freqs.tolist(), **extra},
                          "C02/compound/zero-frequency")
        re = float(log_likelihood_alleles(reads, counts, harr, g))
        if not C.close_log(llk, re):
            chk.violation(f"llk returned by {what} is not the llk of the resulting genotype",
                          {"alleles": g.tolist(), "returned": llk, "recomputed": re, **extra}, "C02/compound/llk")

    n3 = {"warm": 4, "quick": 80, "thorough": 800}[tier]
    for i in range(n3):
        mode = ("py-nocache", "jit-nocache", "jit-cache", "jit-cache-pooled")[i % 4]
        n_alleles, haps, ploidy, kind, freqs, F, alleles, reads, counts = \
            gen_call_instance(r, max_haps=8, pooled=True) if mode == "jit-cache-pooled" else gen_call_instance(r)
        if len(haps) < 2:
            continue
        harr = np.array(haps, dtype=np.int8)
        dt = r.choice([np.int64, np.int32])
        start = np.array(sorted(alleles), dtype=dt)
        l0 = float(log_likelihood_alleles(reads, counts, harr, start))
        if not math.isfinite(l0):
            chk.count("compound_step:skipped-start-state-has-zero-likelihood")
            continue
        if F == 0 and f0_product_underflows(alleles, freqs):
            chk.count("numeric:F0-frequency-product-underflow(observed, not compared)")
            continue
        for st in (0, 1):
            g = start.copy()
            extra = {"mode": mode, "step_type": st, "start": start.tolist(), "dtype": str(np.dtype(dt)), "ploidy": ploidy, "n_haplotypes": len(haps)}
            cache = None
            if mode.startswith("jit-cache"):
                cache = NDict.empty(types.int64, types.float64); cache[-1] = np.nan
            n_steps = 1 if mode == "py-nocache" else 3
            for step in range(n_steps):
                sd = r.randrange(2 ** 31)
                try:
                    if mode == "py-nocache":
                        np.random.seed(sd)
                        llk = float(mcmc.compound_step.py_func(g, harr, reads, counts, F, frequencies=freqs, llk_cache=None, step_type=st))
                    else:
                        seed_numba(sd)
                        llk = float(mcmc.compound_step(g, harr, reads, counts, F, frequencies=freqs, llk_cache=cache, step_type=st))
                except Exception as e:   # noqa: BLE001
                    chk.violation(f"compound_step raises from a reachable state: {type(e).__name__}: {e}", {**extra, "seed": sd}, "C02/compound/raises")
                    break
                chk.count(f"compound_step:{mode}")
                chk.case(("compound", i, st, step), True)
                check_state(g, llk, freqs, harr, reads, counts, "compound_step", {**extra, "seed": sd})
            if cache is not None:
                # what the steps left in the shared cache: every entry is the likelihood of the genotype its key denotes
                bad = None
                for key, val in cache.items():
                    if key < 0:
                        continue
                    ga = index_as_genotype_alleles(key, ploidy)
                    if (ga >= len(haps)).any() or not C.close_log(float(val), float(log_likelihood_alleles(reads, counts, harr, ga))):
                        bad = (int(key), ga.tolist(), float(val))
                        break
                chk.count("compound_step:cache-entries-checked", max(0, len(cache) - 1))
                if bad is not None:
                    chk.violation("the call sampler's likelihood cache holds a value that is not the likelihood of the genotype of its key",
                                  {**extra, "key": bad[0], "genotype_of_key": bad[1], "cached": bad[2]}, "C02/compound/cache-entry")

    lap("compound_step")
    wiring(chk, C.rng(PROP + ":wiring"), {"warm": 2, "quick": 40, "thorough": 400}[tier], drv)
    lap("wiring")
    # ---------------- mcmc_sampler as CallingMCMC.fit runs it: initial state from greedy_caller (int32), cache on, a short trace;
    # every recorded state is sorted, within the panel, of positive prior, and its recorded llk is its likelihood
    n4 = {"warm": 1, "quick": 16, "thorough": 160}[tier]
    for i in range(n4):
        n_alleles, haps, ploidy, kind, freqs, F, alleles, reads, counts = \
            gen_call_instance(r, max_haps=8, pooled=(i % 4 == 3), panel=(i % 4 == 1), styles=("encoded", "free"))
        if len(haps) < 2:
            continue
        harr = np.array(haps, dtype=np.int8)
        try:
            init = mcmc.greedy_caller(harr, ploidy, reads, counts, F, freqs)
        except Exception as e:   # noqa: BLE001
            chk.violation(f"greedy_caller raises on a valid input: {type(e).__name__}: {e}", {"haplotypes": haps, "ploidy": ploidy}, "C02/greedy/raises")
            continue
        if (init < 0).any() or (F == 0 and f0_product_underflows(init.tolist(), freqs)):
            chk.count("mcmc_sampler:skipped")
            continue
        st = i % 2
        sd = r.randrange(2 ** 31)
        seed_numba(sd)
        extra = {"ploidy": ploidy, "n_haplotypes": len(haps), "initial": init.tolist(), "step_type": st, "seed": sd, "inbreeding": F}
        try:
            gt, lt = mcmc.mcmc_sampler(init, harr, reads, counts, F, frequencies=freqs, n_steps=12, cache=bool(i % 3), step_type=st)
        except Exception as e:   # noqa: BLE001
            chk.violation(f"mcmc_sampler raises: {type(e).__name__}: {e}", extra, "C02/sampler/raises")
            continue
        chk.count("mcmc_sampler:" + ("cache" if i % 3 else "nocache")); chk.count(f"mcmc_sampler:initial-dtype={init.dtype}")
        chk.case(("sampler", i), True)
        if gt.shape != (12, ploidy) or lt.shape != (12,):
            chk.violation("mcmc_sampler trace has the wrong shape", {**extra, "shape": list(gt.shape)}, "C02/sampler/shape")
            continue
        for row, llk in zip(gt, lt):
            check_state(row, float(llk), freqs, harr, reads, counts, "mcmc_sampler (trace row)", extra)
    lap("mcmc_sampler")
    # ---------------- CallingMCMC.fit as a whole estimates the exact posterior: tiny instances (ploidy 2-3, 2-3 haplotypes) with few
    # or NO reads and inbreeding on a grid that includes 0.4; the empirical genotype frequencies of a seeded run (deterministic for a
    # given VERIF_SEED) must be within 0.07 of the exact posterior (the Monte-Carlo error of 2 x 3000 well-mixing steps is ~0.01)
    from mchap.calling.classes import CallingMCMC
    n5 = {"warm": 1, "quick": 8, "thorough": 60}[tier]
    for i in range(n5):
        nb = r.randint(1, 2); n_alleles = [2] * nb
        haps = []
        while len(haps) < r.choice([2, 3]):
            h = [r.randrange(2) for _ in range(nb)]
            if h not in haps:
                haps.append(h)
            if len(haps) == 2 ** nb:
                break
        ploidy = r.choice([2, 2, 3])
        F = [0.0, 0.4, 0.1, 0.4][i % 4]
        n_rd = [0, 0, 2, 1][i % 4] if i % 2 == 0 else r.choice([0, 1, 3])
        truth = [r.choice(haps) for _ in range(ploidy)]
        reads, counts = G.gen_reads(r, n_alleles, n_rd, haps=truth, style="encoded")
        freqs = None if i % 3 else np.array(gen_freqs(r, len(haps), kinds=("skew",))[1], dtype=float)
        harr = np.array(haps, dtype=np.int8)
        genos = list(itertools.combinations_with_replacement(range(len(haps)), ploidy))
        w = [exact_w(reads, counts, haps, F, freqs, list(g)) for g in genos]
        tot = sum(w)
        if tot == 0:
            continue
        truth_p = {g: float(x / tot) for g, x in zip(genos, w)}
        step_type = ["Gibbs", "Metropolis-Hastings"][i % 2]
        case = {"haplotypes": haps, "ploidy": ploidy, "inbreeding": F, "n_reads": int(len(counts)), "step_type": step_type,
                "frequencies": None if freqs is None else freqs.tolist()}
        try:
            tr = CallingMCMC(ploidy=ploidy, haplotypes=harr, inbreeding=F, frequencies=freqs, steps=3200, chains=2, random_seed=11 + i,
                             step_type=step_type).fit(reads, read_counts=counts)
            g_all = np.sort(tr.burn(200).genotypes.reshape(-1, ploidy), axis=1)
        except Exception as e:   # noqa: BLE001
            chk.violation(f"CallingMCMC.fit raises on a valid instance: {type(e).__name__}: {e}", case, "C02/fit/raises")
            continue
        emp = {}
        for row in g_all:
            k = tuple(int(x) for x in row)
            emp[k] = emp.get(k, 0) + 1
        n_tot = len(g_all)
        dev = max(abs(emp.get(g, 0) / n_tot - truth_p[g]) for g in genos)
        chk.count(f"fit-posterior:reads={'0' if len(counts) == 0 else '>0'}:F={'0' if F == 0 else '>0'}")
        chk.case(("fit-posterior", i), F > 0 or len(counts) > 0)
        if not (dev <= 0.07) or any(k not in truth_p for k in emp):
            chk.violation("the genotype frequencies of a CallingMCMC.fit run are not an estimate of the exact posterior (likelihood x prior "
                          "normalised over all genotypes): deviation far beyond Monte-Carlo error",
                          {**case, "max_abs_deviation": dev, "empirical": {str(k): round(v / n_tot, 4) for k, v in sorted(emp.items())},
                           "exact": {str(k): round(v, 4) for k, v in truth_p.items()}}, "C02/fit/posterior")
    lap("fit-posterior")
    # ------------------------------------------------------------------ per-sample / option plumbing of the programs (shared observer)
    if tier != "warm":
        from . import plumbing
        plumbing.run_plumbing(chk, C.rng(PROP + ":plumbing"), None, PROP, programs=("call",), tier=tier)
    return chk.finish()
