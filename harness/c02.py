"""C02 — the `mchap call` sampler moves are stationary at the posterior call-exact enumerates.

Correspondence: `probabilities_array` filled by `gibbs_options` / `mh_options` (jitted and
`.py_func`) for every allele position of generated states vs the Lean model
(`MCHap/Model/CallMoves.lean`).  Implementation oracles: an independent exact posterior
(Fractions; likelihood formula x Dirichlet-multinomial) -> exact full conditional vs the Gibbs
vector; detailed-balance residual of the MH vector on ordered states; `compound_step` returns a
sorted genotype whose llk equals the recomputed one.
"""
from __future__ import annotations

import math
from fractions import Fraction

import numpy as np

from . import common as C
from . import gen as G
from .c05 import exact_dm, gen_freqs, ftoks

PROP = "C02"
MODULE = "MCHap.Properties.C02"
THEOREMS = [
    "MCHap.C02.normalise_sum_one",
    "MCHap.C02.gibbs_sum_one",
    "MCHap.C02.gibbs_is_conditional",
    "MCHap.C02.gibbs_is_conditional_F0",
    "MCHap.C02.allelePrior_none_eq_flat",
    "MCHap.C02.gibbs_flat_eq_explicit",
    "MCHap.C02.gibbs_reversible",
    "MCHap.C02.callW_eq_perms_mul_ordered",
    "MCHap.C02.callW_perm",
    "MCHap.C02.sortAlleles_perm",
    "MCHap.C02.callW_sort",
    "MCHap.C02.mhProbs_entry",
    "MCHap.C02.mh_db",
]
RULE = ("cases: random known-haplotype sets (1..6 haplotypes over 1..4 SNVs, shared and unique SNV patterns), ploidy 1..6, "
        "frequencies {None, flat array, skewed, with zero entries}, inbreeding {0,.01,.25,.5,.9}, reads with gaps/counts; every allele "
        "position of a current genotype of positive prior. Non-trivial: >= 2 haplotypes and (a repeated allele in the genotype or "
        "non-flat frequencies). Distinct by request line.")

INBREEDING = [0.0, 0.01, 0.25, 0.5, 0.9]


def gen_call_instance(r, max_haps=6, pooled=False):
    n_base = r.randint(1, 4) if not pooled else r.randint(3, 4)
    n_alleles = G.gen_n_alleles(r, n_base)
    n_haps = r.randint(1, max_haps) if not pooled else r.randint(5, 8)
    seen, haps = set(), []
    for _ in range(n_haps * 4):
        h = tuple(G.gen_haplotype(r, n_alleles))
        if h not in seen:
            seen.add(h); haps.append(list(h))
        if len(haps) == n_haps:
            break
    n = len(haps)
    ploidy = r.choice([1, 2, 2, 3, 4, 4, 6]) if not pooled else r.choice([16, 21, 24, 30, 32, 40])
    kind, freqs = gen_freqs(r, n)
    F = r.choice(INBREEDING) if not pooled else r.choice([0.0, 0.0, 0.1])
    allowed = [a for a in range(n) if freqs is None or freqs[a] > 0]
    pool = [r.choice(allowed) for _ in range(max(1, ploidy // 2))] if r.random() < 0.6 else allowed
    alleles = [r.choice(pool) for _ in range(ploidy)]
    if pooled:
        # a pooled sample: many copies spread evenly over the haplotypes (the number of orderings of such a genotype
        # exceeds 2^63 from ploidy 21 on)
        alleles = [allowed[i % len(allowed)] for i in range(ploidy)]
        r.shuffle(alleles)
    truth = [haps[a] for a in alleles]
    reads, counts = G.gen_reads(r, n_alleles, r.randint(0, 6), haps=truth if r.random() < 0.8 else None,
                                gap=r.choice([0.0, 0.25]), style=r.choice(["encoded", "encoded", "free"]))
    if len(counts) == 0:
        reads = np.full((1, n_base, max(n_alleles)), np.nan); counts = np.array([1], dtype=np.int64)
    return n_alleles, haps, ploidy, kind, freqs, F, alleles, reads, counts


def call_tokens(reads, counts, haps, F, freqs):
    return G.reads_tokens(reads, counts) + G.genotype_tokens(haps) + [C.rat_str(F)] + ftoks(freqs, len(haps))


def exact_w(reads, counts, haps, F, freqs, alleles):
    """independent exact (likelihood x prior) of an unordered genotype"""
    return G.exact_lik(reads, counts, [haps[a] for a in alleles]) * exact_dm(sorted(alleles), len(haps), F, freqs)


def n_perms(alleles):
    out = math.factorial(len(alleles))
    for a in set(alleles):
        out //= math.factorial(list(alleles).count(a))
    return out


def run(tier, replay=None):
    from mchap.calling import mcmc

    chk = C.Check(PROP, tier, MODULE, THEOREMS, RULE, assumptions=[
        "float64 log-space evaluation is compared at rel 1e-9, not proved",
        "the current genotype has positive prior probability (states the sampler can reach)",
        "irreducibility / convergence is not claimed; the theorems are conditional-exactness, reversibility and detailed balance",
    ])
    chk.prove()
    drv = C.Driver()
    r = C.rng(PROP)
    n_cases = {"warm": 3, "quick": 220, "thorough": 2500}[tier]

    insts, lines, meta = [], [], []
    for i in range(n_cases):
        inst = gen_call_instance(r, max_haps=8, pooled=True) if i % 15 == 7 else gen_call_instance(r)
        n_alleles, haps, ploidy, kind, freqs, F, alleles, reads, counts = inst
        toks = call_tokens(reads, counts, haps, F, freqs)
        for k in (range(ploidy) if ploidy <= 8 else sorted(r.sample(range(ploidy), 2))):
            for op in ("call.gibbs", "call.mh"):
                lines.append(" ".join([op] + toks + [str(k)] + [str(a) for a in alleles]))
                meta.append((i, k, op))
        insts.append(inst)
    ans = drv.ask(lines)

    exact_cache = {}
    for (i, k, op), a, line in zip(meta, ans, lines):
        n_alleles, haps, ploidy, kind, freqs, F, alleles, reads, counts = insts[i]
        n = len(haps)
        harr = np.array(haps, dtype=np.int8)
        model = [float(C.parse_rat(x)) for x in a.split()]
        fn = mcmc.gibbs_options if op == "call.gibbs" else mcmc.mh_options
        vecs = {}
        for name, f in (("jit", fn), ("py", fn.py_func)):
            g = np.array(alleles, dtype=np.int64)
            llks = np.full(n, np.nan); lpriors = np.full(n, np.nan); probs = np.full(n, np.nan)
            f(g, k, harr, reads, counts, F, llks, lpriors, probs, frequencies=freqs, llk_cache=None)
            vecs[name] = probs.tolist()
            if g.tolist() != alleles:
                chk.violation(f"{op} does not restore the current allele", {"alleles": alleles, "after": g.tolist()}, "C02/options/restore")
        nontriv = n >= 2 and (len(set(alleles)) < len(alleles) or kind in ("skew", "zeros"))
        chk.count(op); chk.count(f"F={F}"); chk.count(f"freq={kind}"); chk.count(f"ploidy={ploidy}")
        chk.case(line, nontriv, sample={"request": line[:240], "impl": vecs["jit"], "model": model})
        case = {"op": op, "haplotypes": haps, "alleles": alleles, "position": k, "inbreeding": F,
                "frequencies": None if freqs is None else freqs.tolist(), "counts": counts.tolist(),
                "reads": [[[None if math.isnan(x) else x for x in row] for row in rd] for rd in reads.tolist()]}
        if n == 1 and op == "call.mh":
            # a single haplotype: the code divides by n_alleles - 1 = 0; nothing to compare (never sampled: see call.py)
            chk.count("skipped:mh-single-haplotype")
            continue
        for name in ("jit", "py"):
            v = vecs[name]
            if len(v) != len(model) or any(not C.close(x, y, rel=1e-9, abs_=1e-12) for x, y in zip(v, model)):
                chk.disagreement(f"{op} probabilities ({name}) != model", {**case, "impl": v, "model": model})
                break
        # ---------------- oracles on the implementation
        key = (i,)
        def W(al):
            kk = (i, tuple(sorted(al)))
            if kk not in exact_cache:
                exact_cache[kk] = exact_w(reads, counts, haps, F, freqs, list(al))
            return exact_cache[kk]
        v = vecs["jit"]
        if op == "call.gibbs":
            ws = []
            for x in range(n):
                al = list(alleles); al[k] = x
                ws.append(W(al) / n_perms(al))
            tot = sum(ws)
            if tot > 0:
                for x in range(n):
                    exp = float(ws[x] / tot)
                    if not C.close(v[x], exp, rel=1e-8, abs_=1e-12):
                        chk.violation("Gibbs probability is not the exact full conditional of the call-exact posterior",
                                      {**case, "allele": x, "impl": v[x], "expected": exp}, "C02/gibbs/conditional")
                        break
        else:
            cur = alleles[k]
            pio = W(alleles) / n_perms(alleles)
            for x in range(n):
                if x == cur:
                    continue
                al = list(alleles); al[k] = x
                g2 = np.array(al, dtype=np.int64)
                llks = np.full(n, np.nan); lpriors = np.full(n, np.nan); probs = np.full(n, np.nan)
                if W(al) == 0:
                    if v[x] != 0.0:
                        chk.violation("MH proposes a zero-posterior genotype with positive probability", {**case, "allele": x, "impl": v[x]},
                                      "C02/mh/zero-posterior")
                    continue
                mcmc.mh_options(g2, k, harr, reads, counts, F, llks, lpriors, probs, frequencies=freqs, llk_cache=None)
                back = float(probs[cur])
                fa = float(pio) * v[x]
                fb = float(W(al) / n_perms(al)) * back
                if not (fa == fa and fb == fb) or (max(fa, fb) > 1e-250 and abs(fa - fb) > 1e-8 * max(fa, fb)):   # NaN flows fail too
                    chk.violation("MH move violates detailed balance w.r.t. the call-exact posterior",
                                  {**case, "allele": x, "pi*K_forward": fa, "pi*K_backward": fb}, "C02/mh/db")
                    break

    # ---------------- the same vectors with the sampler's likelihood cache in use (shared across states, high ploidy / many haplotypes)
    from numba import types
    from numba.typed import Dict as NDict
    n_hi = {"warm": 1, "quick": 4, "thorough": 30}[tier]
    for it in range(n_hi):
        ploidy, n_h = r.choice([(10, 3), (9, 3), (12, 2), (6, 4)])
        nb = 3
        seen, haps = set(), []
        for _ in range(60):
            h = tuple(r.randrange(2) for _ in range(nb))
            if h not in seen:
                seen.add(h); haps.append(list(h))
            if len(haps) == n_h:
                break
        harr = np.array(haps, dtype=np.int8); n = len(haps)
        reads, counts = G.gen_reads(r, [2] * nb, 5, haps=haps, gap=0.1, style="encoded")
        F = r.choice([0.0, 0.1, 0.5]); kind, freqs = gen_freqs(r, n)
        allowed = [a for a in range(n) if freqs is None or freqs[a] > 0]
        cache = NDict.empty(types.int64, types.float64); cache[-1] = np.nan
        states = [[r.choice(allowed) for _ in range(ploidy)] for _ in range(12)]
        lines, meta = [], []
        toks = call_tokens(reads, counts, haps, F, freqs)
        for st in states:
            for k in range(0, ploidy, 3):
                for op in ("call.gibbs", "call.mh"):
                    lines.append(" ".join([op] + toks + [str(k)] + [str(a) for a in st])); meta.append((st, k, op))
        ans = drv.ask(lines)
        for (st, k, op), a, line in zip(meta, ans, lines):
            model = [float(C.parse_rat(x)) for x in a.split()]
            fn = mcmc.gibbs_options if op == "call.gibbs" else mcmc.mh_options
            g = np.array(st, dtype=np.int64)
            llks = np.full(n, np.nan); lpriors = np.full(n, np.nan); probs = np.full(n, np.nan)
            fn(g, k, harr, reads, counts, F, llks, lpriors, probs, frequencies=freqs, llk_cache=cache)
            chk.count(op + ":cached")
            chk.case(line, True)
            if n == 1 and op == "call.mh":
                continue
            if any(not C.close(x, y, rel=1e-9, abs_=1e-12) for x, y in zip(probs.tolist(), model)):
                chk.disagreement(f"{op} probabilities with the likelihood cache in use != model",
                                 {"haplotypes": haps, "alleles": st, "position": k, "inbreeding": F, "impl": probs.tolist(), "model": model})
                # the property's own oracle: the cached vector must equal the uncached one (which is checked against the exact conditional above)
                probs2 = np.full(n, np.nan)
                fn(np.array(st, dtype=np.int64), k, harr, reads, counts, F, np.full(n, np.nan), np.full(n, np.nan), probs2, frequencies=freqs, llk_cache=None)
                if any(not C.close(x, y, rel=1e-9, abs_=1e-12) for x, y in zip(probs.tolist(), probs2.tolist())):
                    chk.violation("the move distribution of the call sampler changes when its likelihood cache is in use",
                                  {"haplotypes": haps, "alleles": st, "position": k, "with_cache": probs.tolist(), "without": probs2.tolist()},
                                  "C02/options/cache-dependence")

    # ---------------- compound_step: result sorted, returned llk = llk of the final genotype
    from mchap.calling.likelihood import log_likelihood_alleles
    n3 = {"warm": 2, "quick": 60, "thorough": 600}[tier]
    for i in range(n3):
        n_alleles, haps, ploidy, kind, freqs, F, alleles, reads, counts = gen_call_instance(r)
        if len(haps) < 2:
            continue
        harr = np.array(haps, dtype=np.int8)
        for st in (0, 1):
            g = np.array(sorted(alleles), dtype=np.int64)
            np.random.seed(r.randrange(2 ** 31));
            llk = float(mcmc.compound_step.py_func(g, harr, reads, counts, F, frequencies=freqs, llk_cache=None, step_type=st))
            chk.count("compound_step")
            chk.case(("compound", i, st), True)
            if g.tolist() != sorted(g.tolist()):
                chk.violation("compound_step leaves the genotype unsorted", {"alleles": g.tolist()}, "C02/compound/sorted")
            if freqs is not None and any(freqs[a] == 0 for a in g):
                chk.violation("compound_step moved to an allele with zero prior frequency", {"alleles": g.tolist(), "frequencies": freqs.tolist()},
                              "C02/compound/zero-frequency")
            re = float(log_likelihood_alleles(reads, counts, harr, g))
            if not C.close_log(llk, re):
                chk.violation("llk returned by compound_step is not the llk of the resulting genotype",
                              {"alleles": g.tolist(), "returned": llk, "recomputed": re, "step_type": st}, "C02/compound/llk")
    return chk.finish()
