"""C03 — call-exact reports the true normalised posterior; the streaming and array paths agree.

Correspondence: `posterior_mode` (streaming path, all optional returns), `genotype_likelihoods`,
`genotype_posteriors`, `posterior_allele_frequencies`, `alternate_dosage_posteriors` (array path)
vs the Lean model (`exactPosterior`, `streamCall`, `arrayCall`, `supportProb`, `alleleFreqs`,
`alleleCounts`, `alleleOccur` in `MCHap/Model/CallMoves.lean`).  Oracles on the implementation:
an independent Fraction posterior in colex (VCF) order, sums of AFP / ACP, GPM <= SPM <= 1, agreement of
the two paths; CLI: `mchap call-exact` with different `--report` sets on a synthetic data set.
"""
from __future__ import annotations

import itertools
import math
import shutil
import tempfile

import numpy as np

from . import common as C
from . import gen as G
from .c02 import gen_call_instance, call_tokens, exact_w

PROP = "C03"
MODULE = "MCHap.Properties.C03"
THEOREMS = [
    "MCHap.C03.posterior_sum_one",
    "MCHap.C03.posterior_entry",
    "MCHap.C03.argmaxFirst_spec",
    "MCHap.C03.first_max_unique",
    "MCHap.C03.mode_is_max",
    "MCHap.C03.streamMode_spec",
    "MCHap.C03.stream_eq_array",
    "MCHap.C03.acp_sum_ploidy",
    "MCHap.C03.afp_sum_one",
    "MCHap.C03.gpm_le_spm_le_one",
    "MCHap.C03.lik_nonneg",
    "MCHap.C03.callPrior_nonneg",
    "MCHap.C03.posterior_nonneg",
    "MCHap.C03.gpm_le_spm_le_one_of_inputs",
]
RULE = ("cases: random known-haplotype sets (1..6 haplotypes), ploidy 1..6, frequencies {None, flat, skewed, zeros}, inbreeding "
        "{0,.01,.25,.5,.9}, reads with gaps and counts (depth 0..6 unique reads). Non-trivial: >= 3 genotypes with pairwise different "
        "posterior probability. CLI: call-exact on a synthetic data set with several --report subsets. Distinct by request line.")
F32 = 2e-5   # float32 storage of the likelihood / posterior arrays on the GP/GL path


def _vcf_index(g):
    return sum(math.comb(a + k, k + 1) for k, a in enumerate(sorted(g)))


def cli_posterior_oracle(chk, drv, synth, ds, tmp, inb):
    """End to end: what `mchap call-exact` prints for a sample is the posterior of the model evaluated on the
    reads the program encoded for that sample, the haplotypes of the record and the prior the record reports
    (AFPRIOR = the locus' frequencies) — with and without GP (both code paths), without / with
    --prior-frequencies, with a masked reference (REFMASKED input flag, --filter-input-haplotypes)."""
    from .c10 import Observer
    out, rc, err = synth.run_program(ds.assemble_argv("--mcmc-steps", "300", "--mcmc-burn", "100", "--mcmc-seed", "7",
                                                      "--report", "AFP"))
    if rc != 0:
        chk.notes.append(f"assemble failed on the synthetic data set: {err[:200]}")
        return
    hap = synth.bgzip_tabix_vcf(synth.write_text(tmp + "/hapE.vcf", out))
    masked_lines = []
    for line in out.split("\n"):
        if line and not line.startswith("#"):
            f = line.split("\t")
            if f[4] != "." and "REFMASKED" not in f[7].split(";"):
                f[7] = "REFMASKED;" + f[7]
            line = "\t".join(f)
        masked_lines.append(line)
    hap_m = synth.bgzip_tabix_vcf(synth.write_text(tmp + "/hapM.vcf", "\n".join(masked_lines)))
    variants = [("plain", hap, []), ("refmasked-input", hap_m, []), ("prior-AFP", hap, ["--prior-frequencies", "AFP"]),
                ("refmasked-input+prior-AFP", hap_m, ["--prior-frequencies", "AFP"]),
                ("filter", hap, ["--filter-input-haplotypes", "AFP>=0.2"])]
    obs = Observer()
    obs.install()
    memo = {}
    try:
        for vname, hv, extra in variants:
            for rep in (("GP", "AFP", "ACP", "AOP", "AFPRIOR"), ("AFP", "ACP", "AOP", "AFPRIOR")):
                obs.active = True
                try:
                    o, rc2, e2 = synth.run_program(ds.call_argv("call-exact", hv, "--inbreeding", inb, "--report", *rep, *extra))
                finally:
                    obs.active = False
                loci, _, _ = obs.take()
                chk.count(f"cli-oracle:{vname}")
                tag = {"variant": vname, "report": list(rep), "extra": extra}
                if rc2 != 0:
                    chk.violation("call-exact fails on a valid haplotype VCF", {**tag, "error": e2[:300]}, "C03/cli/crash")
                    continue
                _, recs = synth.parse_vcf_text(o)
                by_name = {x["locus"]: x for x in loci}
                reqs, meta = [], []
                for rec in recs:
                    L = by_name.get(rec["ID"])
                    if L is None or "haplotypes" not in L:
                        continue
                    freqs = np.array(L["frequencies"], dtype=float)
                    gts = [smp.get("GT", "") for smp in rec["samples"]]
                    if rec["FILTER"] not in ("PASS", ".") or np.any(np.isnan(freqs)) or any("." in g for g in gts):
                        chk.count("cli-oracle:skipped-filtered-record")
                        continue
                    haps = [[int(x) for x in row] for row in L["haplotypes"]]
                    for j_, (name, smp) in enumerate(zip(rec["sample_names"], rec["samples"])):
                        if vname != "plain" and j_ >= 2 and len(haps) > 5:
                            continue    # the exact model is slow on large panels: two samples per record there
                        reads, counts = L["arrays"][name]
                        if len(counts) == 0:
                            reads = np.full((1, len(haps[0]), 2), np.nan); counts = np.array([1], dtype=np.int64)
                        ploidy = int(L["ploidy"][name]); F = float(L["inbreeding"][name])
                        reqs.append(" ".join(["exact.all"] + call_tokens(np.array(reads, dtype=float), np.array(counts), haps, F, freqs) + [str(ploidy)]))
                        meta.append((rec, name, smp, ploidy, F, freqs, haps))
                todo = [q for q in dict.fromkeys(reqs) if q not in memo]
                memo.update(zip(todo, drv.ask(todo)))
                for (rec, name, smp, ploidy, F, freqs, haps), a in zip(meta, [memo[q] for q in reqs]):
                    parts = a.split(";")
                    if len(parts) < 9:
                        chk.disagreement("model cannot evaluate a CLI case", {**tag, "locus": rec["ID"], "sample": name, "model": a[:200]})
                        continue
                    m_post = [float(C.parse_rat(x)) for x in parts[0].split()]
                    if not m_post or sum(C.parse_rat(x) for x in parts[8].split()) == 0:
                        chk.count("cli-oracle:zero-total")
                        continue
                    m_afp = [float(C.parse_rat(x)) for x in parts[5].split()]
                    m_acp = [float(C.parse_rat(x)) for x in parts[6].split()]
                    m_aop = [float(C.parse_rat(x)) for x in parts[7].split()]
                    case = {**tag, "locus": rec["ID"], "sample": name, "ploidy": ploidy, "inbreeding": F,
                            "prior": [float(x) for x in freqs], "n_haplotypes": len(haps), "line": rec["line"][:300]}
                    chk.case(("cli-oracle", vname, rep, rec["ID"], name), len(haps) >= 2)
                    tol = 0.0005 + 1e-4
                    gt = [int(x) for x in smp["GT"].split("/")]
                    best = max(m_post)
                    if m_post[_vcf_index(gt)] < best - 1e-3:
                        chk.violation("call-exact GT is not a maximiser of likelihood x reported prior",
                                      {**case, "GT": gt, "P(GT)": m_post[_vcf_index(gt)], "max": best}, "C03/cli/GT-not-maximiser")
                    if "GPM" in smp and smp["GPM"] != "." and not (abs(float(smp["GPM"]) - m_post[_vcf_index(gt)]) <= tol):
                        chk.violation("call-exact GPM is not the posterior probability of the reported GT",
                                      {**case, "GPM": smp["GPM"], "model": m_post[_vcf_index(gt)]}, "C03/cli/GPM")
                    if "GP" in smp and smp["GP"] != ".":
                        gp = [float(x) for x in smp["GP"].split(",")]
                        if len(gp) != len(m_post) or any(not (abs(x - y) <= tol) for x, y in zip(gp, m_post)):
                            chk.violation("call-exact GP is not likelihood x reported prior normalised over the genotypes in VCF order",
                                          {**case, "GP": gp[:12], "model": [round(x, 5) for x in m_post[:12]]}, "C03/cli/GP")
                    for key, mv, scale in (("AFP", m_afp, 1), ("ACP", m_acp, ploidy), ("AOP", m_aop, 1)):
                        if key in smp and smp[key] != ".":
                            iv = [float(x) for x in smp[key].split(",")]
                            if len(iv) != len(mv) or any(not (abs(x - y) <= tol * scale) for x, y in zip(iv, mv)):
                                chk.violation(f"call-exact {key} is not the posterior summary of likelihood x reported prior",
                                              {**case, key: iv, "model": [round(x, 5) for x in mv]}, f"C03/cli/{key}")
    finally:
        obs.uninstall()


def run(tier, replay=None):
    from mchap.calling import exact as E

    chk = C.Check(PROP, tier, MODULE, THEOREMS, RULE, assumptions=[
        "the GP/GL path stores log-likelihoods and posteriors as float32: compared at 2e-5, and the reported mode may differ "
        "between the two paths only when the two largest posteriors are within float32 resolution (counted, not compared)",
        "SPM / AFP / ACP / AOP are the same functions of the posterior array on both paths in the model (their sums and GPM <= SPM <= 1 are theorems)",
    ])
    chk.prove()
    drv = C.Driver()
    r = C.rng(PROP)
    n_cases = {"warm": 3, "quick": 250, "thorough": 3000}[tier]

    insts, lines = [], []
    for i in range(n_cases):
        inst = gen_call_instance(r, max_haps=5 if tier != "thorough" else 6)
        n_alleles, haps, ploidy, kind, freqs, F, alleles, reads, counts = inst
        lines.append(" ".join(["exact.all"] + call_tokens(reads, counts, haps, F, freqs) + [str(ploidy)]))
        insts.append(inst)
    ans = drv.ask(lines)
    for inst, a, line in zip(insts, ans, lines):
        n_alleles, haps, ploidy, kind, freqs, F, alleles, reads, counts = inst
        n = len(haps)
        harr = np.array(haps, dtype=np.int8)
        parts = a.split(";")
        m_post = [float(C.parse_rat(x)) for x in parts[0].split()]
        m_si, m_sg = parts[1].split(); m_ai, m_ag = parts[2].split()
        m_g = [int(x) for x in parts[3].split()]
        m_spm = float(C.parse_rat(parts[4]))
        m_afp = [float(C.parse_rat(x)) for x in parts[5].split()]
        m_acp = [float(C.parse_rat(x)) for x in parts[6].split()]
        m_aop = [float(C.parse_rat(x)) for x in parts[7].split()]
        m_joint = [C.parse_rat(x) for x in parts[8].split()]
        total = sum(m_joint)
        case = {"haplotypes": haps, "ploidy": ploidy, "inbreeding": F, "frequencies": None if freqs is None else freqs.tolist(),
                "counts": counts.tolist(), "reads": [[[None if math.isnan(x) else x for x in row] for row in rd] for rd in reads.tolist()]}
        distinct = len({round(p, 12) for p in m_post})
        chk.count(f"ploidy={ploidy}"); chk.count(f"n_haps={n}"); chk.count(f"freq={kind}"); chk.count(f"F={F}")
        if total == 0:
            chk.count("skipped:zero-total")
            continue
        # ---------------- streaming path
        g_s, llk_s, gpm_s, spm_s, afp_s, aop_s = E.posterior_mode(reads, ploidy, harr, read_counts=counts, inbreeding=F, frequencies=freqs,
                                                                  return_support_prob=True, return_posterior_frequencies=True,
                                                                  return_posterior_occurrence=True)
        # ---------------- array path
        llks = E.genotype_likelihoods(reads, ploidy, harr, read_counts=counts)
        post = E.genotype_posteriors(llks, ploidy, n, inbreeding=F, frequencies=freqs)
        idx = int(np.argmax(post))
        from mchap.jitutils import index_as_genotype_alleles
        g_a = index_as_genotype_alleles(idx, ploidy)
        gpm_a = float(post[idx])
        _, sup = E.alternate_dosage_posteriors(g_a, post)
        spm_a = float(sup.sum())
        afp_a, acp_a, aop_a = E.posterior_allele_frequencies(post, ploidy, n)
        chk.case(line, distinct >= 3, sample={"request": line[:200], "impl_stream": [g_s.tolist(), float(gpm_s), float(spm_s)],
                                              "impl_array": [g_a.tolist(), gpm_a, spm_a], "model": [m_g, float(C.parse_rat(m_sg)), m_spm]})
        # top-two margin
        srt = sorted(m_post, reverse=True)
        margin = srt[0] - srt[1] if len(srt) > 1 else 1.0
        # model vs implementation
        if margin > 1e-9:
            if g_s.tolist() != m_g:
                chk.disagreement("streaming mode genotype != model", {**case, "impl": g_s.tolist(), "model": m_g})
        else:
            chk.count("mode-tie(not compared)")
        if margin > 1e-4 and g_a.tolist() != m_g:
            chk.disagreement("array-path mode genotype != model", {**case, "impl": g_a.tolist(), "model": m_g})
        if not C.close(float(gpm_s), float(C.parse_rat(m_sg))):
            chk.disagreement("streaming GPM != model", {**case, "impl": float(gpm_s), "model": m_sg})
        if margin > 1e-9 and not C.close(float(spm_s), m_spm, rel=1e-8):
            chk.disagreement("streaming SPM != model", {**case, "impl": float(spm_s), "model": m_spm})
        for nm, iv, mv in (("AFP", afp_s, m_afp), ("AOP", aop_s, m_aop)):
            if any(not C.close(float(x), y, rel=1e-8, abs_=1e-11) for x, y in zip(iv, mv)):
                chk.disagreement(f"streaming {nm} != model", {**case, "impl": [float(x) for x in iv], "model": mv})
        if len(post) != len(m_post) or any(abs(float(x) - y) > F32 for x, y in zip(post, m_post)):
            chk.disagreement("genotype_posteriors (GP array) != model posterior in VCF order", {**case, "impl": [float(x) for x in post], "model": m_post})
        for nm, iv, mv in (("AFP", afp_a, m_afp), ("ACP", acp_a, m_acp), ("AOP", aop_a, m_aop)):
            if any(not (abs(float(x) - y) <= F32 * ploidy) for x, y in zip(iv, mv)):
                chk.disagreement(f"array-path {nm} != model", {**case, "impl": [float(x) for x in iv], "model": mv})
        # ---------------- oracles on the implementation
        genos = list(itertools.combinations_with_replacement(range(n), ploidy))
        genos.sort(key=lambda g: tuple(reversed(g)))
        ws = [exact_w(reads, counts, haps, F, freqs, list(g)) for g in genos]
        tw = sum(ws)
        truth = [float(w / tw) for w in ws]
        if any(abs(float(x) - y) > F32 for x, y in zip(post, truth)) or len(post) != len(truth):
            k = next((j for j in range(min(len(post), len(truth))) if abs(float(post[j]) - truth[j]) > F32), -1)
            chk.violation("GP is not likelihood x prior normalised over all unordered genotypes in VCF order",
                          {**case, "position": k, "impl": float(post[k]) if k >= 0 else None, "expected": truth[k] if k >= 0 else None},
                          "C03/GP/posterior")
        best = max(truth)
        gi = genos.index(tuple(g_s.tolist())) if tuple(g_s.tolist()) in genos else -1
        if gi < 0 or truth[gi] < best - 1e-9:
            chk.violation("reported GT is not a maximiser of the posterior", {**case, "GT": g_s.tolist(), "its_prob": truth[gi] if gi >= 0 else None,
                                                                              "max": best}, "C03/GT/mode")
        if gi >= 0 and not C.close(float(gpm_s), truth[gi], rel=1e-8):
            chk.violation("GPM is not the posterior probability of the reported GT", {**case, "GPM": float(gpm_s), "expected": truth[gi]}, "C03/GPM")
        sup_truth = sum(t for g, t in zip(genos, truth) if set(g) == set(g_s.tolist()))
        if not C.close(float(spm_s), sup_truth, rel=1e-8):
            chk.violation("SPM is not the total probability of genotypes with the same distinct alleles",
                          {**case, "SPM": float(spm_s), "expected": sup_truth}, "C03/SPM")
        if not (float(gpm_s) <= float(spm_s) + 1e-12 and float(spm_s) <= 1 + 1e-9):
            chk.violation("GPM <= SPM <= 1 violated", {**case, "GPM": float(gpm_s), "SPM": float(spm_s)}, "C03/GPM-SPM-order")
        if not (abs(float(np.sum(afp_s)) - 1) <= 1e-9) or not (abs(float(np.sum(acp_a)) - ploidy) <= 1e-4 * ploidy):
            chk.violation("AFP does not sum to 1 / ACP not to the ploidy", {**case, "sum_AFP": float(np.sum(afp_s)), "sum_ACP": float(np.sum(acp_a))},
                          "C03/AFP-ACP/sums")
        afp_truth = [sum(t * g.count(a) for g, t in zip(genos, truth)) / ploidy for a in range(n)]
        aop_truth = [sum(t for g, t in zip(genos, truth) if a in g) for a in range(n)]
        if any(not C.close(float(x), y, rel=1e-8, abs_=1e-11) for x, y in zip(afp_s, afp_truth)):
            chk.violation("AFP is not the posterior mean allele frequency", {**case, "impl": [float(x) for x in afp_s], "expected": afp_truth}, "C03/AFP")
        if any(not C.close(float(x), y, rel=1e-8, abs_=1e-11) for x, y in zip(aop_s, aop_truth)):
            chk.violation("AOP is not the posterior probability of occurrence", {**case, "impl": [float(x) for x in aop_s], "expected": aop_truth}, "C03/AOP")
        # the two paths agree (up to float32 and exact ties)
        if margin > 1e-4 and g_a.tolist() != g_s.tolist():
            chk.violation("GT depends on whether GP/GL is requested (streaming vs array path)", {**case, "stream": g_s.tolist(), "array": g_a.tolist()},
                          "C03/paths/GT")
        if abs(gpm_a - float(gpm_s)) > F32 or (margin > 1e-4 and abs(spm_a - float(spm_s)) > 4 * F32):
            chk.violation("GPM / SPM depend on whether GP/GL is requested", {**case, "stream": [float(gpm_s), float(spm_s)], "array": [gpm_a, spm_a]},
                          "C03/paths/GPM-SPM")

    # ---------------- CLI: report-option independence
    n_ds = {"warm": 0, "quick": 1, "thorough": 4}[tier]
    if n_ds:
        from . import synth
        for d in range(n_ds):
            tmp = tempfile.mkdtemp(prefix="c03_")
            try:
                # equal ploidy, shallow reads (the prior matters) and a DIFFERENT inbreeding coefficient per sample
                ds = synth.make_dataset(r, tmp, n_samples=3, n_loci=3, ploidies=(4,), max_snvs=3, depth=(2, 5))
                inb = tmp + "/inbreeding.tsv"
                with open(inb, "w") as fh:
                    # a map by sample name: lines in reverse order of the samples, plus a sample that is not in the run
                    fh.write("NOT_IN_RUN\t0.9\n")
                    for s_, f_ in reversed(list(zip(ds.samples, [0.0, 0.3, 0.7, 0.1, 0.5]))):
                        fh.write(f"{s_}\t{f_}\n")
                out, rc, err = synth.run_program(ds.assemble_argv("--mcmc-steps", "300", "--mcmc-burn", "100", "--mcmc-seed", "11"))
                if rc != 0:
                    chk.notes.append(f"assemble failed on the synthetic data set: {err[:200]}")
                    continue
                hap = synth.bgzip_tabix_vcf(synth.write_text(tmp + "/hap.vcf", out))
                results = {}
                sets = [(), ("GP",), ("GL",), ("AFP", "GP"), ("AOP", "ACP")]
                for rs in sets:
                    extra = ["--report", *rs] if rs else []
                    o, rc2, e2 = synth.run_program(ds.call_argv("call-exact", hap, "--inbreeding", inb, *extra))
                    chk.count("cli:call-exact")
                    if rc2 != 0:
                        chk.violation("call-exact fails with a --report set", {"report": rs, "error": e2[:300]}, "C03/cli/crash")
                        continue
                    _, recs = synth.parse_vcf_text(o)
                    results[rs] = recs
                base = results.get(())
                for rs, recs in results.items():
                    if base is None or rs == ():
                        continue
                    for rb, rr in zip(base, recs):
                        for sb, sr in zip(rb["samples"], rr["samples"]):
                            for key in ("GT", "GPM", "SPM", "AFP", "ACP", "AOP"):
                                if key in sb and key in sr and sb[key] != sr[key]:
                                    # allow float32 rounding at the third decimal
                                    try:
                                        xs = [float(x) for x in sb[key].split(",")]; ys = [float(x) for x in sr[key].split(",")]
                                        if len(xs) == len(ys) and all(abs(x - y) <= 0.0011 for x, y in zip(xs, ys)):
                                            chk.count("cli:rounding-difference")
                                            continue
                                    except ValueError:
                                        pass
                                    chk.violation("call-exact column depends on the --report set",
                                                  {"pos": rb["POS"], "field": key, "default": sb[key], "with": list(rs), "value": sr[key]},
                                                  "C03/cli/report-dependence")
                chk.case(("cli", d), True)
                cli_posterior_oracle(chk, drv, synth, ds, tmp, inb)
            finally:
                shutil.rmtree(tmp, ignore_errors=True)
    return chk.finish()
