"""C03 — call-exact reports the true normalised posterior; the streaming and array paths agree.

Correspondence: `posterior_mode` (streaming path, all optional returns), `genotype_likelihoods`,
`genotype_posteriors`, `posterior_allele_frequencies`, `alternate_dosage_posteriors` (array path)
vs the Lean model (`exactPosterior`, `streamCall`, `arrayCall`, `supportProb`, `alleleFreqs`,
`alleleCounts`, `alleleOccur` in `MCHap/Model/CallMoves.lean`).  Oracles on the implementation:
an independent Fraction posterior in colex (VCF) order, sums of AFP / ACP, GPM <= SPM <= 1, agreement of
the two paths; CLI: `mchap call-exact` with different `--report` sets on a synthetic data set.
"""
from __future__ import annotations

import itertools
import math
from fractions import Fraction
import shutil
import tempfile

import numpy as np

from . import common as C
from . import gen as G
from .c02 import gen_call_instance, call_tokens, exact_w
from .c05 import rising, exact_dm

PROP = "C03"
MODULE = "MCHap.Properties.C03"
THEOREMS = [
    "MCHap.C03.posterior_sum_one",
    "MCHap.C03.posterior_entry",
    "MCHap.C03.argmaxFirst_spec",
    "MCHap.C03.first_max_unique",
    "MCHap.C03.mode_is_max",
    "MCHap.C03.streamMode_spec",
    "MCHap.C03.stream_eq_array",
    "MCHap.C03.acp_sum_ploidy",
    "MCHap.C03.afp_sum_one",
    "MCHap.C03.gpm_le_spm_le_one",
    "MCHap.C03.lik_nonneg",
    "MCHap.C03.callPrior_nonneg",
    "MCHap.C03.posterior_nonneg",
    "MCHap.C03.gpm_le_spm_le_one_of_inputs",
]
RULE = ("cases: random known-haplotype sets (1..6 haplotypes), ploidy 1..6, frequencies {None, flat, skewed, zeros, tiny}, inbreeding "
        "{0,.01,.25,.5,.9}, reads with gaps and counts (depth 0..6 unique reads; encoded / free / hard), read_counts=None; deep instances "
        "(up to 30 unique reads with counts up to 40), ploidy 8..12 over 2..3 haplotypes, ploidy 2 over 70..150 haplotypes, loci without any "
        "SNV (the last four against the independent Fraction posterior only). Non-trivial: >= 3 genotypes with pairwise different "
        "posterior probability. CLI: call-exact on synthetic data sets (mixed ploidy 2/4/6, shallow and one deep 60..150 templates, one "
        "--sample-pool run) with --report subsets entering the array path through GP, GL or both. Distinct by request line.")
F32 = 2e-5   # float32 storage of the likelihood / posterior arrays on the GP/GL path


def _vcf_index(g):
    return sum(math.comb(a + k, k + 1) for k, a in enumerate(sorted(g)))


def oracle_posterior(reads, counts, haps, F, freqs, ploidy):
    """The property's posterior, independently of the model and of the code: for every unordered genotype (VCF / colex order)
    log(likelihood x prior) = sum_reads count x log(exact mean over the genotype's haplotypes of the per-haplotype product)
    + log(exact (Dirichlet-)multinomial prior); normalised in float64.  Exact rationals per read (no powers), so deep reads and
    large panels stay cheap.  Returns (genotypes, probabilities | None when every genotype has weight 0, log-joints, log-likelihoods)."""
    n = len(haps)
    n_reads, n_base = reads.shape[0], reads.shape[1]
    P = []
    for i in range(n_reads):
        row = []
        for h in haps:
            pr = Fraction(1)
            for j in range(n_base):
                v = reads[i, j, h[j]]
                if not math.isnan(v):
                    pr *= Fraction(float(v))
            row.append(pr)
        P.append(row)
    cs = [1] * n_reads if counts is None else [int(c) for c in counts]
    fs = [Fraction(1, n)] * n if freqs is None else [Fraction(float(x)) for x in freqs]
    Ff = Fraction(float(F))
    if Ff != 0:
        alphas = [f * (1 - Ff) / Ff for f in fs]
        lA = C.frac_log(rising(sum(alphas), ploidy))
    lfact = math.log(math.factorial(ploidy))
    lpl = math.log(ploidy)
    genos = list(itertools.combinations_with_replacement(range(n), ploidy))
    genos.sort(key=lambda g: tuple(reversed(g)))
    lj, lls = [], []
    for g in genos:
        ll = 0.0
        for i in range(n_reads):
            rp = sum(P[i][a] for a in g)
            if rp == 0:
                ll = -math.inf
                break
            ll += cs[i] * (C.frac_log(rp) - lpl)
        lp = lfact
        for a in set(g):
            c = g.count(a)
            lp -= math.log(math.factorial(c))
            term = fs[a] ** c if Ff == 0 else rising(alphas[a], c)
            lp += C.frac_log(term)
        if Ff != 0:
            lp -= lA
        lls.append(ll)
        lj.append(ll + lp if math.isfinite(ll) and math.isfinite(lp) else -math.inf)
    top = max(lj)
    if not math.isfinite(top):
        return genos, None, lj, lls
    w = [math.exp(x - top) for x in lj]
    tot = math.fsum(w)
    return genos, [x / tot for x in w], lj, lls


FORMAT_KEYS = ("GP", "GL", "AFP", "ACP", "AOP")      # optional per-sample fields of call-exact (AFPRIOR etc. are INFO fields)


def cli_posterior_oracle(chk, drv, synth, ds, tmp, inb, deep=False):
    """End to end: what `mchap call-exact` prints for a sample is the posterior of the model evaluated on the
    reads the program encoded for that sample, the haplotypes of the record and the prior the record reports
    (AFPRIOR = the locus' frequencies) — with and without GP (both code paths), without / with
    --prior-frequencies, with a masked reference (REFMASKED input flag, --filter-input-haplotypes)."""
    from .c10 import Observer
    out, rc, err = synth.run_program(ds.assemble_argv("--mcmc-steps", "300", "--mcmc-burn", "100", "--mcmc-seed", "7",
                                                      "--report", "AFP"))
    if rc != 0:
        chk.notes.append(f"assemble failed on the synthetic data set: {err[:200]}")
        return
    hap = synth.bgzip_tabix_vcf(synth.write_text(tmp + "/hapE.vcf", out))
    masked_lines = []
    for line in out.split("\n"):
        if line and not line.startswith("#"):
            f = line.split("\t")
            if f[4] != "." and "REFMASKED" not in f[7].split(";"):
                f[7] = "REFMASKED;" + f[7]
            line = "\t".join(f)
        masked_lines.append(line)
    hap_m = synth.bgzip_tabix_vcf(synth.write_text(tmp + "/hapM.vcf", "\n".join(masked_lines)))
    variants = [("plain", hap, []), ("refmasked-input", hap_m, []), ("prior-AFP", hap, ["--prior-frequencies", "AFP"]),
                ("refmasked-input+prior-AFP", hap_m, ["--prior-frequencies", "AFP"]),
                ("filter", hap, ["--filter-input-haplotypes", "AFP>=0.2"]),
                # all samples pooled into one individual of ploidy 6 (reads of all BAMs, one column)
                ("sample-pool", hap, ["--sample-pool", "POOL"])]
    if deep:
        variants = [("plain-deep", hap, [])]
    obs = Observer()
    obs.install()
    memo = {}
    try:
        for vname, hv, extra in variants:
            reps = [("GP", "AFP", "ACP", "AOP", "AFPRIOR"), ("AFP", "ACP", "AOP", "AFPRIOR")]
            if vname in ("plain", "plain-deep", "sample-pool"):
                reps.append(("GL", "AFP", "ACP", "AOP", "AFPRIOR"))      # the array path entered through GL alone
            for rep in reps:
                obs.active = True
                try:
                    if vname == "sample-pool":
                        argv = ["mchap", "call-exact", "--bam", *ds.bams, "--ploidy", "6", "--haplotypes", hv, "--inbreeding", "0.15",
                                "--report", *rep, *extra]
                    else:
                        argv = ds.call_argv("call-exact", hv, "--inbreeding", inb, "--report", *rep, *extra)
                    o, rc2, e2 = synth.run_program(argv)
                finally:
                    obs.active = False
                loci, _, _ = obs.take()
                chk.count(f"cli-oracle:{vname}")
                tag = {"variant": vname, "report": list(rep), "extra": extra}
                if rc2 != 0:
                    chk.violation("call-exact fails on a valid haplotype VCF", {**tag, "error": e2[:300]}, "C03/cli/crash")
                    continue
                _, recs = synth.parse_vcf_text(o)
                by_name = {x["locus"]: x for x in loci}
                reqs, meta = [], []
                for rec in recs:
                    L = by_name.get(rec["ID"])
                    if L is None or "haplotypes" not in L:
                        continue
                    freqs = np.array(L["frequencies"], dtype=float)
                    gts = [smp.get("GT", "") for smp in rec["samples"]]
                    if rec["FILTER"] not in ("PASS", ".") or np.any(np.isnan(freqs)) or any("." in g for g in gts):
                        chk.count("cli-oracle:skipped-filtered-record")
                        continue
                    haps = [[int(x) for x in row] for row in L["haplotypes"]]
                    for j_, (name, smp) in enumerate(zip(rec["sample_names"], rec["samples"])):
                        reads, counts = L["arrays"][name]
                        if len(counts) == 0:
                            reads = np.full((1, len(haps[0]), 2), np.nan); counts = np.array([1], dtype=np.int64)
                        ploidy = int(L["ploidy"][name]); F = float(L["inbreeding"][name])
                        q = " ".join(["exact.all"] + call_tokens(np.array(reads, dtype=float), np.array(counts), haps, F, freqs) + [str(ploidy)])
                        if math.comb(len(haps) + ploidy - 1, ploidy) > 30000:
                            chk.count("cli-oracle:skipped(more than 30000 genotypes)")
                            continue
                        if math.comb(len(haps) + ploidy - 1, ploidy) > 40 and q not in memo:
                            # larger genotype spaces (more than 40 genotypes): the exact-rational model driver takes seconds per
                            # request; the independent Fraction / float64 posterior of this module is used instead
                            genos_, truth_, lj_, _ = oracle_posterior(np.array(reads, dtype=float), np.array(counts), haps, F, freqs, ploidy)
                            if truth_ is None:
                                memo[q] = ("py", None)
                            else:
                                afp_ = [0.0] * len(haps); aop_ = [0.0] * len(haps)
                                for g_, t_ in zip(genos_, truth_):
                                    for a_ in set(g_):
                                        afp_[a_] += t_ * g_.count(a_) / ploidy
                                        aop_[a_] += t_
                                memo[q] = ("py", truth_, afp_, [x * ploidy for x in afp_], aop_, abs(max(lj_)))
                        reqs.append(q)
                        meta.append((rec, name, smp, ploidy, F, freqs, haps))
                todo = [q for q in dict.fromkeys(reqs) if q not in memo]
                memo.update(zip(todo, drv.ask(todo)))
                for (rec, name, smp, ploidy, F, freqs, haps), a in zip(meta, [memo[q] for q in reqs]):
                    if isinstance(a, tuple):
                        chk.count("cli-oracle:large-space(independent Fraction posterior instead of the model driver)")
                        if a[1] is None:
                            chk.count("cli-oracle:zero-total")
                            continue
                        _, m_post, m_afp, m_acp, m_aop, l_mode = a
                    else:
                        parts = a.split(";")
                        if len(parts) < 9:
                            chk.disagreement("model cannot evaluate a CLI case", {**tag, "locus": rec["ID"], "sample": name, "model": a[:200]})
                            continue
                        m_post = [float(C.parse_rat(x)) for x in parts[0].split()]
                        if not m_post or sum(C.parse_rat(x) for x in parts[8].split()) == 0:
                            chk.count("cli-oracle:zero-total")
                            continue
                        m_afp = [float(C.parse_rat(x)) for x in parts[5].split()]
                        m_acp = [float(C.parse_rat(x)) for x in parts[6].split()]
                        m_aop = [float(C.parse_rat(x)) for x in parts[7].split()]
                        l_mode = abs(C.frac_log(max(C.parse_rat(x) for x in parts[8].split())))
                    case = {**tag, "locus": rec["ID"], "sample": name, "ploidy": ploidy, "inbreeding": F,
                            "prior": [float(x) for x in freqs], "n_haplotypes": len(haps), "line": rec["line"][:300]}
                    chk.case(("cli-oracle", vname, rep, rec["ID"], name), len(haps) >= 2)
                    chk.count(f"cli-oracle:ploidy={ploidy}")
                    # printed to 3 decimals; on the array path the log-joints pass through float32: a few units in the last
                    # place of the magnitude of the log-joint around the mode (1e-4 covers shallow data)
                    tol = 0.0005 + max(1e-4, 4.0 * float(np.spacing(np.float32(l_mode + 50.0))))
                    for key in rep:
                        if key in FORMAT_KEYS and key not in smp:
                            chk.violation(f"call-exact --report {key}: the requested FORMAT field is absent from the sample column",
                                          {**case, "FORMAT": rec["FORMAT"]}, "C03/cli/requested-field-absent")
                    gt = [int(x) for x in smp["GT"].split("/")]
                    best = max(m_post)
                    if m_post[_vcf_index(gt)] < best - 1e-3:
                        chk.violation("call-exact GT is not a maximiser of likelihood x reported prior",
                                      {**case, "GT": gt, "P(GT)": m_post[_vcf_index(gt)], "max": best}, "C03/cli/GT-not-maximiser")
                    if "GPM" in smp and smp["GPM"] != "." and not (abs(float(smp["GPM"]) - m_post[_vcf_index(gt)]) <= tol):
                        chk.violation("call-exact GPM is not the posterior probability of the reported GT",
                                      {**case, "GPM": smp["GPM"], "model": m_post[_vcf_index(gt)]}, "C03/cli/GPM")
                    if "GP" in smp and smp["GP"] != ".":
                        gp = [float(x) for x in smp["GP"].split(",")]
                        if len(gp) != len(m_post) or any(not (abs(x - y) <= tol) for x, y in zip(gp, m_post)):
                            chk.violation("call-exact GP is not likelihood x reported prior normalised over the genotypes in VCF order",
                                          {**case, "GP": gp[:12], "model": [round(x, 5) for x in m_post[:12]]}, "C03/cli/GP")
                    for key, mv, scale in (("AFP", m_afp, 1), ("ACP", m_acp, ploidy), ("AOP", m_aop, 1)):
                        if key in smp and smp[key] != ".":
                            iv = [float(x) for x in smp[key].split(",")]
                            if len(iv) != len(mv) or any(not (abs(x - y) <= tol * scale) for x, y in zip(iv, mv)):
                                chk.violation(f"call-exact {key} is not the posterior summary of likelihood x reported prior",
                                              {**case, key: iv, "model": [round(x, 5) for x in mv]}, f"C03/cli/{key}")
    finally:
        obs.uninstall()


def run(tier, replay=None):
    from mchap.calling import exact as E

    chk = C.Check(PROP, tier, MODULE, THEOREMS, RULE, assumptions=[
        "the GP/GL path stores log-likelihoods and posteriors as float32: compared at 2e-5 or, for deep data, at 4 units in the last place "
        "(float32) of the largest log-likelihood / log-joint stored, and the reported mode may differ "
        "between the two paths only when the two largest posteriors are within float32 resolution (counted, not compared)",
        "CLI cases with more than 40 genotypes are compared with the independent Fraction / float64 posterior of this module instead of the "
        "exact-rational model driver (seconds per request); more than 30000 genotypes are not compared",
        "SPM / AFP / ACP / AOP are the same functions of the posterior array on both paths in the model (their sums and GPM <= SPM <= 1 are theorems)",
    ])
    chk.prove()
    chk.require("cli:two-samples-of-equal-ploidy-with-different-inbreeding", "anything computed once per ploidy level would be shared between such samples")
    drv = C.Driver()
    r = C.rng(PROP)
    import time
    t_sec = [time.time()]

    def lap(name):
        chk.extra.setdefault("section_seconds", {})[name] = round(time.time() - t_sec[0], 1)
        t_sec[0] = time.time()
    from mchap.jitutils import index_as_genotype_alleles
    n_cases = {"warm": 3, "quick": 250, "thorough": 3000}[tier]
    n_deep = {"warm": 1, "quick": 24, "thorough": 240}[tier]          # 30 unique reads, counts up to 40
    n_high = {"warm": 1, "quick": 10, "thorough": 100}[tier]          # ploidy 8-12 over 2-3 haplotypes
    n_wide = {"warm": 1, "quick": 3, "thorough": 30}[tier]            # ploidy 2 over 70-150 haplotypes
    n_ref = {"warm": 1, "quick": 3, "thorough": 10}[tier]             # no SNV at all (REF-only record)

    insts, lines, line_of = [], [], {}
    for i in range(n_cases + n_deep + n_high + n_wide + n_ref):
        var = {"stream": "small", "read_counts": "array"}
        if i < n_cases:
            inst = gen_call_instance(r, max_haps=5 if tier != "thorough" else 6)
            if r.random() < 0.12:
                inst[8][:] = 1                      # read_counts=None: every read counts once
                var["read_counts"] = "None"
        elif i < n_cases + n_deep:
            inst = gen_call_instance(r, max_haps=4, max_reads=30, max_count=40, styles=("encoded", "encoded", "free"))
            var["stream"] = "deep"
        elif i < n_cases + n_deep + n_high:
            inst = gen_call_instance(r, ploidy=r.randint(8, 12), n_haps=r.choice([2, 3]))
            var["stream"] = "ploidy8-12"
        elif i < n_cases + n_deep + n_high + n_wide:
            # alternately more than 128 haplotypes (allele indices beyond int8) and fewer
            inst = gen_call_instance(r, panel=True, ploidy=2, n_haps=r.randint(129, 150) if (i - n_cases - n_deep - n_high) % 2 == 0 else r.randint(70, 127))
            var["stream"] = "ploidy2x70-150haplotypes"
        else:
            ploidy = r.choice([1, 2, 4, 6])
            n_reads = r.choice([0, 1, 5])
            width = r.choice([0, 2])
            inst = ([], [[]], ploidy, "flatarr", np.array([1.0]), r.choice([0.0, 0.3]), [0] * ploidy,
                    np.zeros((n_reads, 0, width)), np.ones(n_reads, dtype=np.int64))
            var["stream"] = "no-snv"
            if n_reads == 0 or r.random() < 0.5:
                var["read_counts"] = "None"
        n_alleles, haps, ploidy, kind, freqs, F, alleles, reads, counts = inst
        if var["stream"] == "small":
            line_of[i] = len(lines)
            lines.append(" ".join(["exact.all"] + call_tokens(reads, counts, haps, F, freqs) + [str(ploidy)]))
        insts.append((inst, var))
    ans = drv.ask(lines)
    lap("model")
    for i, (inst, var) in enumerate(insts):
        n_alleles, haps, ploidy, kind, freqs, F, alleles, reads, counts = inst
        n = len(haps)
        harr = np.array(haps, dtype=np.int8).reshape(n, reads.shape[1])
        rc = None if var["read_counts"] == "None" else counts
        has_model = i in line_of
        small_case = reads.size <= 300 and n <= 12
        case = {"haplotypes": haps if n <= 12 else f"{n} haplotypes", "ploidy": ploidy, "inbreeding": F,
                "frequencies": None if freqs is None else freqs.tolist()[:20], "variant": var,
                "counts": counts.tolist(), "reads": [[[None if math.isnan(x) else x for x in row] for row in rd] for rd in reads.tolist()]
                if small_case else f"array {reads.shape}"}
        chk.count(f"ploidy={ploidy}"); chk.count(f"n_haps={n if n <= 8 else '70..150'}"); chk.count(f"freq={kind}"); chk.count(f"F={F}")
        chk.count(f"stream={var['stream']}"); chk.count(f"read_counts={var['read_counts']}")
        # ---------------- the property's posterior, independently
        genos, truth, lj, lls_t = oracle_posterior(reads, rc, haps, F, freqs, ploidy)
        if i % 40 == 0 and n <= 12 and truth is not None:
            # the oracle's prior against the other independent statement of it (harness self-check)
            g0 = genos[len(genos) // 2]
            lp0 = C.frac_log(exact_dm(list(g0), n, F, freqs)) + C.frac_log(G.exact_lik(reads, np.ones(len(counts), dtype=np.int64) if rc is None else counts,
                                                                                 [haps[a] for a in g0]))
            if not C.close_log(lj[len(genos) // 2], lp0):
                raise C.Infra(f"C03 oracle self-check failed: {lj[len(genos) // 2]} vs {lp0}")
        if truth is None:
            chk.count("skipped:zero-total")
            continue
        # ---------------- streaming path
        try:
            g_s, llk_s, gpm_s, spm_s, afp_s, aop_s = E.posterior_mode(reads, ploidy, harr, read_counts=rc, inbreeding=F, frequencies=freqs,
                                                                      return_support_prob=True, return_posterior_frequencies=True,
                                                                      return_posterior_occurrence=True)
            # ---------------- array path
            llks = E.genotype_likelihoods(reads, ploidy, harr, read_counts=rc)
            post = E.genotype_posteriors(llks, ploidy, n, inbreeding=F, frequencies=freqs)
            idx = int(np.argmax(post))
            g_a = index_as_genotype_alleles(idx, ploidy)
            gpm_a = float(post[idx])
            _, sup = E.alternate_dosage_posteriors(g_a, post)
            spm_a = float(sup.sum())
            afp_a, acp_a, aop_a = E.posterior_allele_frequencies(post, ploidy, n)
        except Exception as e:   # noqa: BLE001
            chk.violation(f"a call-exact function raises on a valid input: {type(e).__name__}: {e}", case, "C03/raises")
            continue
        # float32 storage of the log-likelihood / log-joint arrays on the array path: a relative error of a few units in the
        # last place of the largest finite magnitude stored (2e-5 for shallow data)
        fin = [abs(x) for x in lj if math.isfinite(x)] + [abs(float(x)) for x in llks if math.isfinite(float(x))]
        f32 = max(F32, 4.0 * float(np.spacing(np.float32(max(fin) if fin else 1.0))))
        if f32 > F32:
            chk.count("float32-resolution-above-2e-5(array-path tolerance = 4 ulp32 of the largest log-likelihood)")
        srt = sorted(truth, reverse=True)
        margin = srt[0] - srt[1] if len(srt) > 1 else 1.0
        distinct = len({round(p_, 12) for p_ in truth})
        if has_model:
            a = ans[line_of[i]]
            line = lines[line_of[i]]
            parts = a.split(";")
            m_post = [float(C.parse_rat(x)) for x in parts[0].split()]
            m_si, m_sg = parts[1].split(); m_ai, m_ag = parts[2].split()
            m_g = [int(x) for x in parts[3].split()]
            m_spm = float(C.parse_rat(parts[4]))
            m_afp = [float(C.parse_rat(x)) for x in parts[5].split()]
            m_acp = [float(C.parse_rat(x)) for x in parts[6].split()]
            m_aop = [float(C.parse_rat(x)) for x in parts[7].split()]
            chk.case(line, distinct >= 3, sample={"request": line[:200], "impl_stream": [g_s.tolist(), float(gpm_s), float(spm_s)],
                                                  "impl_array": [g_a.tolist(), gpm_a, spm_a], "model": [m_g, float(C.parse_rat(m_sg)), m_spm]})
            # model vs implementation
            if margin > 1e-9:
                if g_s.tolist() != m_g:
                    chk.disagreement("streaming mode genotype != model", {**case, "impl": g_s.tolist(), "model": m_g})
            else:
                chk.count("mode-tie(not compared)")
            if margin > 1e-4 and g_a.tolist() != m_g:
                chk.disagreement("array-path mode genotype != model", {**case, "impl": g_a.tolist(), "model": m_g})
            if not C.close(float(gpm_s), float(C.parse_rat(m_sg))):
                chk.disagreement("streaming GPM != model", {**case, "impl": float(gpm_s), "model": m_sg})
            if margin > 1e-9 and not C.close(float(spm_s), m_spm, rel=1e-8):
                chk.disagreement("streaming SPM != model", {**case, "impl": float(spm_s), "model": m_spm})
            for nm, iv, mv in (("AFP", afp_s, m_afp), ("AOP", aop_s, m_aop)):
                if any(not C.close(float(x), y, rel=1e-8, abs_=1e-11) for x, y in zip(iv, mv)):
                    chk.disagreement(f"streaming {nm} != model", {**case, "impl": [float(x) for x in iv], "model": mv})
            if len(post) != len(m_post) or any(not (abs(float(x) - y) <= F32) for x, y in zip(post, m_post)):
                chk.disagreement("genotype_posteriors (GP array) != model posterior in VCF order", {**case, "impl": [float(x) for x in post], "model": m_post})
            for nm, iv, mv in (("AFP", afp_a, m_afp), ("ACP", acp_a, m_acp), ("AOP", aop_a, m_aop)):
                if any(not (abs(float(x) - y) <= F32 * ploidy) for x, y in zip(iv, mv)):
                    chk.disagreement(f"array-path {nm} != model", {**case, "impl": [float(x) for x in iv], "model": mv})
        else:
            chk.case(("oracle-only", var["stream"], i, ploidy, n, F, kind), distinct >= 3)
        # ---------------- oracles on the implementation
        if len(post) != len(truth) or any(not (abs(float(x) - y) <= f32) for x, y in zip(post, truth)):
            k = next((j for j in range(min(len(post), len(truth))) if not (abs(float(post[j]) - truth[j]) <= f32)), -1)
            chk.violation("GP is not likelihood x prior normalised over all unordered genotypes in VCF order",
                          {**case, "position": k, "impl": float(post[k]) if k >= 0 else None, "expected": truth[k] if k >= 0 else None,
                           "n_genotypes": [len(post), len(truth)]}, "C03/GP/posterior")
        # GL is the log-likelihood of each genotype (float32)
        if len(llks) == len(genos):
            for j in range(len(genos)):
                ll_t = lls_t[j]
                got = float(llks[j])
                ok = (got == ll_t) if not (math.isfinite(got) and math.isfinite(ll_t)) else abs(got - ll_t) <= 2.0 * float(np.spacing(np.float32(abs(ll_t)))) + 1e-9
                if not ok:
                    chk.violation("GL entry is not the log-likelihood of the genotype at that VCF index (float32)",
                                  {**case, "index": j, "genotype": list(genos[j]), "impl": got, "expected": ll_t}, "C03/GL")
                    break
        best = max(truth)
        pos = {g: j for j, g in enumerate(genos)}
        gi = pos.get(tuple(g_s.tolist()), -1)
        if gi < 0 or truth[gi] < best - 1e-9:
            chk.violation("reported GT is not a maximiser of the posterior", {**case, "GT": g_s.tolist(), "its_prob": truth[gi] if gi >= 0 else None,
                                                                              "max": best}, "C03/GT/mode")
        if gi >= 0 and not C.close(float(gpm_s), truth[gi], rel=1e-8):
            chk.violation("GPM is not the posterior probability of the reported GT", {**case, "GPM": float(gpm_s), "expected": truth[gi]}, "C03/GPM")
        sset = set(g_s.tolist())
        sup_truth = math.fsum(t for g, t in zip(genos, truth) if set(g) == sset)
        if not C.close(float(spm_s), sup_truth, rel=1e-8):
            chk.violation("SPM is not the total probability of genotypes with the same distinct alleles",
                          {**case, "SPM": float(spm_s), "expected": sup_truth}, "C03/SPM")
        if not (float(gpm_s) <= float(spm_s) + 1e-12 and float(spm_s) <= 1 + 1e-9):
            chk.violation("GPM <= SPM <= 1 violated", {**case, "GPM": float(gpm_s), "SPM": float(spm_s)}, "C03/GPM-SPM-order")
        if not (abs(float(np.sum(afp_s)) - 1) <= 1e-9) or not (abs(float(np.sum(acp_a)) - ploidy) <= 5 * f32 * ploidy):
            chk.violation("AFP does not sum to 1 / ACP not to the ploidy", {**case, "sum_AFP": float(np.sum(afp_s)), "sum_ACP": float(np.sum(acp_a))},
                          "C03/AFP-ACP/sums")
        afp_truth = [0.0] * n; aop_truth = [0.0] * n
        for g, t in zip(genos, truth):
            for a_ in set(g):
                afp_truth[a_] += t * g.count(a_) / ploidy
                aop_truth[a_] += t
        if any(not C.close(float(x), y, rel=1e-8, abs_=1e-11) for x, y in zip(afp_s, afp_truth)) or len(afp_s) != n:
            chk.violation("AFP is not the posterior mean allele frequency", {**case, "impl": [float(x) for x in afp_s][:20], "expected": afp_truth[:20]}, "C03/AFP")
        if any(not C.close(float(x), y, rel=1e-8, abs_=1e-11) for x, y in zip(aop_s, aop_truth)) or len(aop_s) != n:
            chk.violation("AOP is not the posterior probability of occurrence", {**case, "impl": [float(x) for x in aop_s][:20], "expected": aop_truth[:20]}, "C03/AOP")
        # array-path summaries against the same truth (float32)
        for nm, iv, tv, sc in (("AFP", afp_a, afp_truth, 1), ("ACP", acp_a, [x * ploidy for x in afp_truth], ploidy), ("AOP", aop_a, aop_truth, 1)):
            if len(iv) != n or any(not (abs(float(x) - y) <= 5 * f32 * sc) for x, y in zip(iv, tv)):
                chk.violation(f"array-path {nm} is not the posterior summary (float32 tolerance)",
                              {**case, "impl": [float(x) for x in iv][:20], "expected": tv[:20]}, f"C03/array/{nm}")
        # the two paths agree (up to float32 and exact ties)
        if margin > max(1e-4, 10 * f32) and g_a.tolist() != g_s.tolist():
            chk.violation("GT depends on whether GP/GL is requested (streaming vs array path)", {**case, "stream": g_s.tolist(), "array": g_a.tolist()},
                          "C03/paths/GT")
        if not (abs(gpm_a - float(gpm_s)) <= f32) or (margin > max(1e-4, 10 * f32) and not (abs(spm_a - float(spm_s)) <= 4 * f32)):
            chk.violation("GPM / SPM depend on whether GP/GL is requested", {**case, "stream": [float(gpm_s), float(spm_s)], "array": [gpm_a, spm_a]},
                          "C03/paths/GPM-SPM")
    lap("function-level")

    # ---------------- CLI: report-option independence
    n_ds = {"warm": 0, "quick": 2, "thorough": 5}[tier]
    if n_ds:
        from . import synth
        for d in range(n_ds + 1):
            deep = d == n_ds        # the last data set is deep (60-150 templates per sample and locus)
            tmp = tempfile.mkdtemp(prefix="c03_")
            try:
                if deep:
                    ds = synth.make_dataset(r, tmp, n_samples=2, n_loci=2, ploidies=(2, 4), max_snvs=2, depth=(60, 150))
                else:
                    # mixed ploidy, shallow reads (the prior matters) and a DIFFERENT inbreeding coefficient per sample
                    # (two samples share a ploidy: anything computed once per ploidy level would be shared between them)
                    ds = synth.make_dataset(r, tmp, n_samples=4, n_loci=3, ploidies=(4, 2, 4, 6), max_snvs=3, depth=(2, 5))
                chk.count("cli:dataset:" + ("deep(60-150)" if deep else "shallow(2-5)") + ":ploidies=" + "/".join(str(ds.ploidy[s_]) for s_ in ds.samples))
                pl_ = [ds.ploidy[s_] for s_ in ds.samples]
                if len(set(pl_)) < len(pl_):
                    chk.count("cli:two-samples-of-equal-ploidy-with-different-inbreeding")
                inb = tmp + "/inbreeding.tsv"
                with open(inb, "w") as fh:
                    # a map by sample name: lines in reverse order of the samples, plus a sample that is not in the run
                    fh.write("NOT_IN_RUN\t0.9\n")
                    for s_, f_ in reversed(list(zip(ds.samples, [0.0, 0.3, 0.7, 0.1, 0.5]))):
                        fh.write(f"{s_}\t{f_}\n")
                out, rc, err = synth.run_program(ds.assemble_argv("--mcmc-steps", "300", "--mcmc-burn", "100", "--mcmc-seed", "11"))
                if rc != 0:
                    chk.notes.append(f"assemble failed on the synthetic data set: {err[:200]}")
                    continue
                hap = synth.bgzip_tabix_vcf(synth.write_text(tmp + "/hap.vcf", out))
                results = {}
                # () .. ("AOP","ACP","AFP") run the streaming path; GP and / or GL switch to the full-array path
                sets = [(), ("AOP", "ACP", "AFP"), ("GP",), ("GL",), ("AFP", "GP"), ("GL", "AFP", "ACP", "AOP"), ("GL", "GP", "AOP")]
                if deep:
                    sets = [(), ("AOP", "ACP", "AFP"), ("GL", "AFP", "ACP", "AOP"), ("GP", "AOP")]
                for rs in sets:
                    extra = ["--report", *rs] if rs else []
                    o, rc2, e2 = synth.run_program(ds.call_argv("call-exact", hap, "--inbreeding", inb, *extra))
                    chk.count("cli:call-exact"); chk.count("cli:report=" + ("+".join(rs) or "default"))
                    if rc2 != 0:
                        chk.violation("call-exact fails with a --report set", {"report": rs, "error": e2[:300]}, "C03/cli/crash")
                        continue
                    _, recs = synth.parse_vcf_text(o)
                    results[rs] = recs
                    for rec in recs:
                        for name, smp in zip(rec["sample_names"], rec["samples"]):
                            missing = [k_ for k_ in ("GT", "GPM", "SPM") + tuple(rs) if k_ not in smp]
                            if missing:
                                chk.violation("call-exact: a requested (or mandatory) FORMAT field is absent from a sample column",
                                              {"pos": rec["POS"], "sample": name, "report": list(rs), "missing": missing, "FORMAT": rec["FORMAT"]},
                                              "C03/cli/requested-field-absent")
                n_rec = {len(v) for v in results.values()}
                if len(n_rec) > 1:
                    chk.violation("the number of call-exact records depends on the --report set", {"records": {str(k): len(v) for k, v in results.items()}},
                                  "C03/cli/report-dependence")
                # every column any two runs share must agree (the first run reporting a key is the reference; it is a streaming run)
                for key in ("GT", "GPM", "SPM", "AFP", "ACP", "AOP"):
                    having = [rs for rs in sets if rs in results and all(key in smp for rec in results[rs] for smp in rec["samples"])]
                    if len(having) < 2:
                        continue
                    ref = having[0]
                    for rs in having[1:]:
                        chk.count(f"cli:compared:{key}")
                        for rb, rr in zip(results[ref], results[rs]):
                            for sb, sr in zip(rb["samples"], rr["samples"]):
                                if sb[key] != sr[key]:
                                    # allow float32 rounding at the third decimal
                                    try:
                                        xs = [float(x) for x in sb[key].split(",")]; ys = [float(x) for x in sr[key].split(",")]
                                        if len(xs) == len(ys) and all(abs(x - y) <= 0.0011 for x, y in zip(xs, ys)):
                                            chk.count("cli:rounding-difference")
                                            continue
                                    except ValueError:
                                        pass
                                    if key == "GT" and "GPM" in sb and sb["GPM"] not in (".", "") and "SPM" in sb:
                                        # an exact / float32-level tie between two genotypes may be broken differently by the two paths
                                        try:
                                            if abs(float(sb["GPM"]) - float(sr["GPM"])) <= 0.0011 and float(sb["GPM"]) <= 0.5:
                                                chk.count("cli:GT-tie(not compared)")
                                                continue
                                        except ValueError:
                                            pass
                                    chk.violation("call-exact column depends on the --report set",
                                                  {"pos": rb["POS"], "field": key, "report_a": list(ref), "value_a": sb[key], "report_b": list(rs),
                                                   "value_b": sr[key]}, "C03/cli/report-dependence")
                chk.case(("cli", d), True)
                lap(f"cli:report-sets:{'deep' if deep else 'shallow'}:{d}")
                cli_posterior_oracle(chk, drv, synth, ds, tmp, inb, deep=deep)
                lap(f"cli:posterior-oracle:{'deep' if deep else 'shallow'}:{d}")
            finally:
                shutil.rmtree(tmp, ignore_errors=True)
    # ------------------------------------------------------------------ per-sample / option plumbing of the programs (shared observer)
    if tier != "warm":
        from . import plumbing
        plumbing.run_plumbing(chk, C.rng(PROP + ":plumbing"), None, PROP, programs=("call-exact",), tier=tier)
    return chk.finish()
