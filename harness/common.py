"""Shared machinery of the MCHap verification checks.

Everything a check needs that is not specific to one property lives here:
paths, the PRNG, the numba cache hygiene, the Lean build / audit, the driver line protocol,
numeric comparison, violation / known-finding reporting and the evidence writer.
"""
from __future__ import annotations

import fcntl
import hashlib
import json
import math
import os
import random
import re
import shutil
import subprocess
import sys
import time
from fractions import Fraction
from pathlib import Path

sys.set_int_max_str_digits(0)   # exact rationals of long loci have thousands of digits

VERIF = Path(__file__).resolve().parent.parent
REPO = Path(os.environ.get("MCHAP_REPO", "/repo"))
LEAN = VERIF / "lean"
DRIVER = LEAN / ".lake" / "build" / "bin" / "driver"
EVIDENCE = VERIF / "evidence"
REPLAYS = VERIF / "replays"
CORPUS = VERIF / "corpus"
CACHE = VERIF / ".cache"
KNOWN = VERIF / "known_findings.json"

ALLOWED_AXIOMS = {"propext", "Classical.choice", "Quot.sound"}
FORBIDDEN = re.compile(
    r"\b(sorry|admit|native_decide|bv_decide|implemented_by|unsafe)\b|^\s*axiom\s|maxHeartbeats\s+0\b"
)

TRUSTED_BASE = [
    "Lean 4.33.0 kernel; Mathlib v4.33.0 as compiled in /opt/veriftools/mathlib4",
    "axioms: propext, Classical.choice, Quot.sound only (audited with #print axioms on every run); no native_decide / bv_decide / sorry",
    "hand-written Lean model tied to /repo's working tree by the differential correspondence check of this run (generator quality bounds what it sees)",
    "Lean driver line protocol (parsing / printing) and the Python harness (generators, canonicalisation, tolerances of DESIGN.md App. A)",
    "IEEE-754 evaluation, numba compilation and RNG streams are modelled, not verified",
]


class Infra(Exception):
    """infrastructure failure: exit 2, never a VIOLATION"""


class ProgramAbort(Exception):
    """the implementation under test failed on an input the harness built as valid (a program run that must succeed aborted,
    a recorder could not bind a call): not a failure of the machinery - the supervisor reports a broken correspondence
    (exit 1, VIOLATION ... no-failing-input-found, the message in the replay)"""


# --------------------------------------------------------------------------------------
# seed / tier
# --------------------------------------------------------------------------------------

def seed() -> int:
    try:
        return int(os.environ.get("VERIF_SEED", "0"))
    except ValueError:
        return 0


def rng(tag: str = "") -> random.Random:
    return random.Random(f"{seed()}:{tag}")


# --------------------------------------------------------------------------------------
# repo tree hash and numba cache hygiene
# --------------------------------------------------------------------------------------

def repo_tree_hash() -> str:
    h = hashlib.sha256()
    root = REPO / "mchap"
    files = sorted(
        p for p in root.rglob("*.py") if "tests" not in p.relative_to(root).parts
    )
    for p in files:
        h.update(str(p.relative_to(root)).encode())
        h.update(b"\0")
        h.update(p.read_bytes())
        h.update(b"\0")
    return h.hexdigest()[:16]


def repo_git_state() -> dict:
    def run(*a):
        try:
            return subprocess.run(
                ["git", "-C", str(REPO), *a], capture_output=True, text=True, timeout=60
            ).stdout
        except Exception:
            return ""

    head = run("rev-parse", "HEAD").strip()
    diff = run("diff", "HEAD", "--", "mchap")
    return {
        "head": head,
        "dirty_diff_sha": hashlib.sha256(diff.encode()).hexdigest()[:16] if diff else None,
        "tree_hash": repo_tree_hash(),
    }


def setup_numba_cache() -> str:
    """Point numba at a cache directory keyed by the content of /repo/mchap.

    numba's on-disk cache is keyed on the defining file only, so an edited callee in another file
    would otherwise be silently ignored.  Must be called before `import mchap`.
    """
    th = repo_tree_hash()
    base = CACHE / "numba"
    d = base / th
    d.mkdir(parents=True, exist_ok=True)
    os.utime(d)
    # prune: keep the 4 most recently used trees and anything used within the last 2 hours
    # (several checks may run concurrently against different trees)
    try:
        now = time.time()
        olds = sorted((p for p in base.iterdir() if p.is_dir()), key=lambda p: p.stat().st_mtime)
        for p in olds[:-4]:
            if now - p.stat().st_mtime > 7200:
                shutil.rmtree(p, ignore_errors=True)
    except OSError:
        pass
    os.environ["NUMBA_CACHE_DIR"] = str(d)
    os.environ.setdefault("MCHAP_VERIF", "1")
    if str(REPO) not in sys.path:
        sys.path.insert(0, str(REPO))
    import warnings

    warnings.filterwarnings("ignore")
    return th


def subprocess_env(extra: dict | None = None) -> dict:
    env = dict(os.environ)
    env["PYTHONPATH"] = str(REPO) + os.pathsep + env.get("PYTHONPATH", "")
    env["PYTHONWARNINGS"] = "ignore"
    if extra:
        env.update(extra)
    return env


# --------------------------------------------------------------------------------------
# Lean build, audit, driver
# --------------------------------------------------------------------------------------

class _Lock:
    def __init__(self, path):
        self.path = path

    def __enter__(self):
        self.f = open(self.path, "w")
        fcntl.flock(self.f, fcntl.LOCK_EX)
        return self

    def __exit__(self, *a):
        fcntl.flock(self.f, fcntl.LOCK_UN)
        self.f.close()


def lake(*args, timeout=3600) -> subprocess.CompletedProcess:
    with _Lock(VERIF / ".lock.lake"):
        return subprocess.run(
            ["lake", *args], cwd=LEAN, capture_output=True, text=True, timeout=timeout
        )


def lake_build(targets=()) -> tuple[bool, str]:
    """(ok, log). A no-op build takes ~0.3 s."""
    r = lake("build", *targets)
    return r.returncode == 0, (r.stdout + r.stderr)[-4000:]


def forbidden_tokens() -> list[str]:
    """grep the Lean sources for proof escapes; comment lines are ignored."""
    hits = []
    for p in sorted(LEAN.rglob("*.lean")):
        if ".lake" in p.parts:
            continue
        in_block = False
        for i, line in enumerate(p.read_text().splitlines(), 1):
            s = line
            if in_block:
                if "-/" in s:
                    in_block = False
                continue
            if "/-" in s and "-/" not in s.split("/-", 1)[1]:
                in_block = True
                s = s.split("/-", 1)[0]
            s = re.sub(r"/-.*?-/", "", s)
            s = s.split("--", 1)[0]
            if FORBIDDEN.search(s):
                hits.append(f"{p.relative_to(LEAN)}:{i}: {line.strip()}")
    return hits


def audit(module: str, theorems: list[str]) -> dict:
    """`#print axioms` for each theorem of a property module.

    returns {"ok": bool, "discharged": int, "obligations": int, "detail": {thm: [axioms] | "error"}, "cmd": str}
    """
    auditdir = LEAN / "Audit"
    auditdir.mkdir(exist_ok=True)
    name = module.split(".")[-1]
    f = auditdir / f"{name}.lean"
    body = f"import {module}\n" + "".join(f"#print axioms {t}\n" for t in theorems)
    if not f.exists() or f.read_text() != body:
        f.write_text(body)
    r = lake("env", "lean", str(f.relative_to(LEAN)), timeout=1800)
    out = r.stdout + r.stderr
    detail = {}
    for t in theorems:
        short = t
        m = re.search(
            r"'" + re.escape(short) + r"' depends on axioms: \[([^\]]*)\]", out, re.S
        )
        if m:
            axs = [a.strip() for a in m.group(1).replace("\n", " ").split(",") if a.strip()]
            detail[t] = axs
        elif re.search(r"'" + re.escape(short) + r"' does not depend on any axioms", out):
            detail[t] = []
        else:
            detail[t] = "error"
    discharged = sum(
        1 for t, a in detail.items() if a != "error" and set(a) <= ALLOWED_AXIOMS
    )
    return {
        "ok": r.returncode == 0 and discharged == len(theorems),
        "discharged": discharged,
        "obligations": len(theorems),
        "detail": detail,
        "cmd": f"cd lean && lake build && lake env lean Audit/{name}.lean",
        "log": out[-3000:] if r.returncode != 0 else "",
    }


class Driver:
    """One native driver process; requests are written in batches and answers read back."""

    def __init__(self, exe: str = "driver"):
        self.path = LEAN / ".lake" / "build" / "bin" / exe
        if not self.path.exists():
            ok, log = lake_build([exe])
            if not ok or not self.path.exists():
                raise Infra(f"driver not built: {self.path}\n{log[-1500:]}")
        self.n = 0

    def ask(self, lines: list[str]) -> list[str]:
        if not lines:
            return []
        for l in lines:
            if "\n" in l:
                raise Infra("newline in request")
        data = "\n".join(lines) + "\n"
        try:
            r = subprocess.run(
                [str(self.path)], input=data, capture_output=True, text=True, timeout=900
            )
        except subprocess.TimeoutExpired:
            raise Infra("driver timed out (900 s)")
        if r.returncode != 0:
            raise Infra(f"driver exit {r.returncode}: {r.stderr[-500:]}")
        out = r.stdout.split("\n")
        if out and out[-1] == "":
            out.pop()
        if len(out) != len(lines):
            raise Infra(f"driver answered {len(out)} lines for {len(lines)} requests")
        self.n += len(lines)
        return out

    def ask1(self, line: str) -> str:
        return self.ask([line])[0]


# --------------------------------------------------------------------------------------
# exact <-> float
# --------------------------------------------------------------------------------------

def frac(x) -> Fraction:
    """exact value of a float / int / numpy scalar"""
    if isinstance(x, Fraction):
        return x
    if isinstance(x, int):
        return Fraction(x)
    return Fraction(float(x))


def rat_str(x) -> str:
    f = frac(x)
    return f"{f.numerator}/{f.denominator}"


def cell_str(x) -> str:
    x = float(x)
    if math.isnan(x):
        return "nan"
    return rat_str(x)


def parse_rat(s: str) -> Fraction:
    n, _, d = s.partition("/")
    return Fraction(int(n), int(d) if d else 1)


def frac_log(f: Fraction) -> float:
    """natural log of a positive Fraction of any size; -inf for 0"""
    if f == 0:
        return -math.inf
    if f < 0:
        return math.nan
    return math.log(f.numerator) - math.log(f.denominator)


def close(x: float, y: float, rel=1e-9, abs_=1e-12) -> bool:
    """probability-scale comparison (Appendix A)"""
    if math.isnan(x) or math.isnan(y):
        return math.isnan(x) and math.isnan(y)
    if math.isinf(x) or math.isinf(y):
        return x == y
    return abs(x - y) <= rel * max(abs(x), abs(y)) + abs_


def close_log(x: float, y: float, rel=1e-9) -> bool:
    if math.isnan(x) or math.isnan(y):
        return math.isnan(x) and math.isnan(y)
    if math.isinf(x) or math.isinf(y):
        return x == y
    return abs(x - y) <= rel * (1 + abs(x))


# --------------------------------------------------------------------------------------
# known findings, violations, evidence
# --------------------------------------------------------------------------------------

def load_known() -> list[dict]:
    if not KNOWN.exists():
        return []
    return json.loads(KNOWN.read_text()).get("findings", [])


class Check:
    """Bookkeeping of one check run: counts, samples, violations, evidence."""

    def __init__(self, prop: str, tier: str, module: str, theorems: list[str], rule: str,
                 assumptions: list[str] | None = None, exe: str = "driver",
                 extra_modules: list[str] | None = None):
        self.exe = exe
        self.extra_modules = extra_modules or []
        self.prop = prop
        self.tier = tier
        self.module = module
        self.theorems = theorems
        self.rule = rule
        self.assumptions = assumptions or []
        self.t0 = time.time()
        self.evaluations = 0
        self.nontrivial: set = set()
        self.samples: list = []
        self.hist: dict = {}
        self.disagreements: list[dict] = []
        self.violations: list[dict] = []
        self.known_hits: dict = {}
        self.audit_result: dict | None = None
        self.build_ok = True
        self.build_log = ""
        self.notes: list[str] = []
        self.extra: dict = {}
        self.known = [k for k in load_known() if k.get("property") == prop and k.get("status") == "open"]
        # journal: survives a crash of the interpreter (e.g. a segfault inside jitted code under test)
        CACHE.mkdir(parents=True, exist_ok=True)
        self.journal = CACHE / f"journal_{prop}.jsonl"
        try:
            self.journal.write_text(json.dumps({"start": True, "tier": tier, "seed": seed(), "theorems": len(theorems)}) + "\n")
        except OSError:
            pass

    def _journal(self, obj: dict):
        try:
            with open(self.journal, "a") as f:
                f.write(json.dumps(obj, default=str) + "\n")
        except OSError:
            pass

    def breadcrumb(self, what: str, case):
        """record what is about to be executed on the implementation (read back if the interpreter dies)"""
        self._journal({"breadcrumb": what, "case": case})

    # ---- coverage accounting
    def count(self, key, n=1):
        self.hist[key] = self.hist.get(key, 0) + n

    def require(self, key_prefix, why):
        """Declare an input class that this run MUST exercise by construction (quick and thorough tiers).  A generator that is
        later "improved" can silently stop producing the very shape an oracle depends on (it happened: samples that no longer
        shared a ploidy); `finish` turns that into a loud infrastructure failure instead of a check that passes blind."""
        self.required = getattr(self, "required", [])
        self.required.append((key_prefix, why))

    def case(self, canonical, nontrivial: bool, sample=None):
        self.evaluations += 1
        if nontrivial:
            self.nontrivial.add(
                hashlib.sha1(json.dumps(canonical, sort_keys=True, default=str).encode()).hexdigest()
            )
        if sample is not None and len(self.samples) < 3:
            self.samples.append(sample)

    # ---- proof side
    def prove(self):
        """build this property's Lean module (+ its driver), grep for proof escapes, audit axioms;
        thorough tier: re-check the compiled module with leanchecker."""
        ok, log = lake_build([self.module, self.exe, *self.extra_modules])
        self.build_ok = ok
        self.build_log = log
        toks = forbidden_tokens()
        if toks:
            self.build_ok = False
            self.build_log += "\nforbidden tokens:\n" + "\n".join(toks)
        if ok:
            self.audit_result = audit(self.module, self.theorems)
            self._journal({"audit": {"obligations": self.audit_result["obligations"], "discharged": self.audit_result["discharged"],
                                     "cmd": self.audit_result["cmd"]}})
            if self.tier == "thorough" and self.audit_result["ok"]:
                r = lake("env", "leanchecker", self.module, *self.extra_modules, timeout=3000)
                self.audit_result["cmd"] += f" && lake env leanchecker {self.module}"
                self.extra["leanchecker_exit"] = r.returncode
                if r.returncode != 0:
                    self.audit_result["ok"] = False
                    self.audit_result["discharged"] = 0
                    self.audit_result["log"] = (r.stdout + r.stderr)[-3000:]
        else:
            self.audit_result = {
                "ok": False, "discharged": 0, "obligations": len(self.theorems),
                "detail": {}, "cmd": "cd lean && lake build", "log": log,
            }
        return self.build_ok and self.audit_result["ok"]

    # ---- disagreement / violation reporting
    def disagreement(self, what: str, case: dict):
        """model and implementation differ on a case (not by itself a violation)"""
        self.disagreements.append({"what": what, "case": case})

    def violation(self, what: str, case: dict, signature: str | None = None):
        """the property itself fails on the real code for this input"""
        for k in self.known:
            if signature is not None and k.get("signature") == signature:
                self.known_hits.setdefault(signature, {"what": k.get("what", what), "n": 0})
                self.known_hits[signature]["n"] += 1
                return
        self.violations.append({"what": what, "case": case, "signature": signature})
        if len(self.violations) <= 5:
            self._journal({"violation": what, "case": case, "signature": signature})

    def _write_replay(self, payload: dict) -> str:
        d = REPLAYS / self.prop
        d.mkdir(parents=True, exist_ok=True)
        blob = json.dumps(payload, indent=1, sort_keys=True, default=str)
        name = hashlib.sha1(blob.encode()).hexdigest()[:12] + ".json"
        (d / name).write_text(blob)
        return f"replays/{self.prop}/{name}"

    def finish(self) -> int:
        if self.tier != "warm":
            for prefix, why in getattr(self, "required", []):
                if not any(k.startswith(prefix) and v > 0 for k, v in self.hist.items()):
                    raise Infra(f"input class '{prefix}' was not exercised by this run although the harness is built to produce it ({why})")
        wall = time.time() - self.t0
        lines = []
        for sig, k in sorted(self.known_hits.items()):
            lines.append(f"KNOWN-FINDING: property={self.prop} {k['what']} [{sig}; {k['n']} case(s)]")
        status = 0
        proof_ok = self.build_ok and self.audit_result is not None and self.audit_result["ok"]
        if self.violations:
            v = self.violations[0]
            path = self._write_replay({
                "property": self.prop, "kind": "failing-input", "what": v["what"],
                "case": v["case"], "signature": v["signature"],
                "more": [x["what"] for x in self.violations[1:10]],
                "replay_cmd": f"./check {self.prop} --replay <this file>",
                "seed": seed(), "tier": self.tier, "repo": repo_git_state(),
            })
            lines.append(f"VIOLATION property={self.prop} replay={path}")
            status = 1
        elif self.disagreements or not proof_ok:
            if not proof_ok:
                bad = [t for t, a in (self.audit_result or {}).get("detail", {}).items()
                       if a == "error" or not set(a) <= ALLOWED_AXIOMS]
                payload = {
                    "property": self.prop, "kind": "proof-obligation-broken",
                    "theorems_not_checked": bad or self.theorems,
                    "log": (self.audit_result or {}).get("log", "") or self.build_log,
                }
            else:
                d = self.disagreements[0]
                payload = {
                    "property": self.prop, "kind": "correspondence-broken",
                    "correspondence": d["what"], "case": d["case"],
                    "more": [x["what"] for x in self.disagreements[1:10]],
                    "n_disagreements": len(self.disagreements),
                }
            payload.update({
                "note": "the implementation oracles of this check found no input on which the property itself fails",
                "seed": seed(), "tier": self.tier, "repo": repo_git_state(),
                "replay_cmd": f"./check {self.prop} --replay <this file>",
            })
            path = self._write_replay(payload)
            lines.append(f"VIOLATION property={self.prop} replay={path} no-failing-input-found")
            status = 1
        ar = self.audit_result or {"obligations": len(self.theorems), "discharged": 0, "cmd": "", "detail": {}}
        ev = {
            "property_id": self.prop,
            "tier": self.tier,
            "seed": seed(),
            "level": "proof",
            "coverage": {
                "obligations": max(1, ar["obligations"]),
                "discharged": ar["discharged"],
                "checker_cmd": ar["cmd"] or "cd lean && lake build",
                "trusted_base": TRUSTED_BASE,
                "theorems": ar.get("detail", {}),
                "evaluations": self.evaluations,
                "distinct_nontrivial": len(self.nontrivial),
                "rule": self.rule,
                "samples": self.samples,
                "disagreements_checked": self.evaluations,
                "disagreements_found": len(self.disagreements),
                "input_distribution": self.hist,
                "known_findings_hit": {k: v["n"] for k, v in self.known_hits.items()},
                "repo": repo_git_state(),
                "notes": self.notes,
                **self.extra,
            },
            "assumptions": self.assumptions,
            "wall_s": round(wall, 2),
            "violations": len(self.violations) + (1 if status == 1 and not self.violations else 0),
        }
        EVIDENCE.mkdir(exist_ok=True)
        (EVIDENCE / f"{self.prop}.json").write_text(json.dumps(ev, indent=1, default=str))
        for l in lines:
            print(l)
        print(f"[{self.prop}] tier={self.tier} seed={seed()} evaluations={self.evaluations} "
              f"nontrivial={len(self.nontrivial)} theorems={ar['discharged']}/{ar['obligations']} "
              f"disagreements={len(self.disagreements)} violations={len(self.violations)} "
              f"known={sum(v['n'] for v in self.known_hits.values())} wall={wall:.1f}s -> exit {status}")
        sys.stdout.flush()
        return status


def corpus_cases(prop: str) -> list[dict]:
    d = CORPUS / prop
    if not d.exists():
        return []
    out = []
    for p in sorted(d.glob("*.json")):
        try:
            out.append(json.loads(p.read_text()))
        except Exception:
            pass
    return out
