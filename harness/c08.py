"""C08 — determinism: records depend only on inputs and seed, not on cores / order / history.

Proof side: `MCHap.Properties.C08` over `Model/Sched.lean` (RNG as explicit state, `np.array_split` blocks, the
worker / queue / writer protocol as a small-step relation, whole programs).

Correspondence (what ties the model to /repo on this run):
  * `np.array_split` block sizes vs `arraySplit` (driver `sched.split`);
  * the REAL `_run_stdout_multi_core`, `_worker`, `_writer` code executed under forced schedules (threads behind a
    turn-stile replacing `multiprocessing`) vs `runSchedule` of the model (driver `sched.run`): same lines written,
    same exit kind, same queue length, for schedules with and without a failing locus;
  * the order of the records of every real multi-core run must be an interleaving of the model's blocks
    (`sched.shuffle`), the records of a failing single-core run must be the model's prefix (`sched.single`).
Oracles (the property statement itself on what the real programs print / return):
  * multiset of record lines identical for `--cores` 1, 2, 3, 5 (real subprocesses and in-process forks), every
    locus exactly once, every line intact; identical to the single-locus runs, to permuted / subset target files,
    to repeated runs and to runs after unrelated work in the same process; header identical apart from the date
    and command lines;
  * `.fit()` of DenovoMCMC / CallingMCMC bit-for-bit identical after perturbing numpy's and numba's generators and
    after unrelated fits;
  * fault injection (listing error in the main process, MD / reference mismatch inside a worker) at BED positions,
    cores 1 and 3: exit status != 0, no record for the failing locus, no hang.
The OS scheduler, pipes and `multiprocessing` internals are *not* modelled (partial): only the runs see them.
"""
from __future__ import annotations

import copy
import io
import os
import queue as _queue
import shutil
import sys
import tempfile
import threading
import time
from concurrent.futures import ThreadPoolExecutor

import numpy as np

from . import common as C
from . import gen as G
from . import synth

PROP = "C08"
MODULE = "MCHap.Properties.C08"
EXE = "driver_prog"
THEOREMS = [
    "MCHap.C08.fit_independent_of_prior_rng",
    "MCHap.C08.fitSeq_history_independent",
    "MCHap.C08.fit_unseeded_partial",
    "MCHap.C08.fit_numpy_only_partial",
    "MCHap.C08.arraySplit_partition",
    "MCHap.C08.interleave_perm",
    "MCHap.C08.progress",
    "MCHap.C08.step_decreases",
    "MCHap.C08.no_infinite_execution",
    "MCHap.C08.failure_propagates",
    "MCHap.C08.error_only_on_failure",
    "MCHap.C08.runSingle_spec",
    "MCHap.C08.runMulti_spec",
    "MCHap.C08.cores_agree",
    "MCHap.C08.status_agree",
    "MCHap.C08.record_function_of_locus",
    "MCHap.C08.step?_sound",
    "MCHap.C08.runSchedule_sound",
    "MCHap.C08.isShuffle_sound",
]
RULE = ("cases: (n,k) pairs for array_split; forced schedules of the real worker/writer/main code (k workers, n loci, "
        "0..2 failing loci, random enabled moves); fits (DenovoMCMC with/without tempering, CallingMCMC Gibbs/MH) before/after "
        "RNG perturbation and unrelated fits; CLI runs of assemble / call / call-exact / call-pedigree on synthetic datasets "
        "(>= 5 loci) for cores in {1,2,3,5,n+2}, permuted / subset / single-locus targets, repeated runs; fault injection "
        "(listing error, worker error) x BED position x cores {1,3}. Non-trivial: >= 3 loci and cores >= 2 (CLI, schedules), "
        "k >= 2 and n >= 3 (split), a perturbation that changes the un-seeded result (fits). Distinct by canonical case description.")

MCMC = ["--mcmc-steps", "300", "--mcmc-burn", "100"]
DROP = ("##fileDate", "##commandline")
TIMEOUT = 240


# --------------------------------------------------------------------------------------
# helpers on program output
# --------------------------------------------------------------------------------------

def split_out(text):
    """(header lines without date / command line, record lines)"""
    hdr, recs = [], []
    for line in text.split("\n"):
        if not line:
            continue
        if line.startswith("#"):
            if not line.startswith(DROP):
                hdr.append(line)
        else:
            recs.append(line)
    return hdr, recs


def once(chk, key, sample):
    """a sample for the evidence file, at most one per kind of case"""
    seen = chk.__dict__.setdefault("_sampled", set())
    if key in seen:
        return None
    seen.add(key)
    return sample


def rid(line):
    f = line.split("\t")
    return f[2] if len(f) > 2 else "?"


def by_id(recs):
    d = {}
    for l in recs:
        d.setdefault(rid(l), []).append(l)
    return d


def intact(line, n_samples):
    f = line.split("\t")
    return len(f) == 9 + n_samples and f[1].isdigit() and all(x != "" for x in f)


class Runner:
    """in-process program runs with bookkeeping"""

    def __init__(self, chk):
        self.chk = chk
        self.n = 0

    def __call__(self, argv, what, base=False):
        """(header, records); the base run of a program must succeed (else infrastructure failure); any other run
        failing on inputs derived from a successful base run contradicts the property and is reported"""
        out, code, err = synth.run_program(argv)
        self.n += 1
        if code != 0:
            if base:
                raise C.Infra(f"{what}: in-process run failed with exit {code}: {err[:400]}")
            self.chk.violation(f"{what}: the program fails (exit {code}) although the plain single-core run succeeds",
                               {"what": what, "argv": argv, "exit": code, "error": err[:500]}, "C08/run/status")
        self.raw_header = [l for l in out.split("\n") if l.startswith("#")]
        return split_out(out)


# --------------------------------------------------------------------------------------
# part A: array_split
# --------------------------------------------------------------------------------------

def check_split(chk, drv, r, tier):
    pairs = [(n, k) for n in range(0, 14) for k in range(0, 9)]
    extra = {"warm": 5, "quick": 150, "thorough": 1500}[tier]
    for _ in range(extra):
        pairs.append((r.randint(0, 400), r.randint(1, 40)))
    if tier == "warm":
        pairs = pairs[:20]
    ans = drv.ask([f"sched.split {n} {k}" for n, k in pairs])
    for (n, k), a in zip(pairs, ans):
        try:
            impl = " ".join(str(len(b)) for b in np.array_split(list(range(n)), k))
            blocks = [list(b) for b in np.array_split(list(range(n)), k)]
        except ValueError:
            impl, blocks = "error:ValueError", None
        chk.count("split")
        smp = once(chk, "split", {"request": f"sched.split {n} {k}", "impl": impl, "model": a}) if (n >= 5 and k >= 2 and n % k) else None
        chk.case(f"split {n} {k}", n >= 3 and k >= 2, sample=smp)
        if impl != a:
            chk.disagreement("np.array_split block sizes != arraySplit", {"n": n, "k": k, "impl": impl, "model": a})
        if blocks is not None:
            flat = [x for b in blocks for x in b]
            sizes = [len(b) for b in blocks]
            if flat != list(range(n)) or len(blocks) != k or (sizes and max(sizes) - min(sizes) > 1):
                chk.violation("np.array_split does not partition the loci into k nearly equal consecutive blocks",
                              {"n": n, "k": k, "sizes": sizes}, "C08/array_split/partition")


# --------------------------------------------------------------------------------------
# part B: the real protocol code under forced schedules
# --------------------------------------------------------------------------------------

class _Abort(BaseException):
    """raised inside an actor thread when the replay is over"""


class _Turnstile:
    """actors (threads) run one at a time, only when the schedule grants them a turn"""

    def __init__(self):
        self.cv = threading.Condition()
        self.granted = None      # actor name allowed to run
        self.parked = {}         # actor -> True while waiting for a turn (or ended)
        self.ended = set()
        self.started = set()
        self.abort = False

    def wait_turn(self, name):
        with self.cv:
            self.parked[name] = True
            self.cv.notify_all()
            ok = self.cv.wait_for(lambda: self.granted == name or self.abort, timeout=20)
            if not ok or self.abort:
                raise _Abort(f"turnstile: {name} never got a turn")
            self.parked[name] = False
            self.granted = None      # the turn is consumed

    def end(self, name):
        with self.cv:
            self.ended.add(name)
            self.parked[name] = True
            if self.granted == name:
                self.granted = None
            self.cv.notify_all()

    def settle(self):
        """wait until every started actor is waiting for a turn or has ended"""
        with self.cv:
            return self.cv.wait_for(lambda: all(self.parked.get(a, False) for a in self.started), timeout=20)

    def shutdown(self):
        with self.cv:
            self.abort = True
            self.cv.notify_all()

    def grant(self, name):
        """give `name` one turn and wait until it parks again (or ends)"""
        with self.cv:
            ok = self.cv.wait_for(lambda: self.parked.get(name, False), timeout=20)
            if not ok:
                raise RuntimeError(f"turnstile: {name} is not waiting")
            if name in self.ended:
                raise RuntimeError(f"turnstile: {name} has ended")
            self.granted = name
            self.parked[name] = False
            self.cv.notify_all()
            ok = self.cv.wait_for(lambda: self.parked.get(name, False), timeout=20)
            self.granted = None
            if not ok:
                raise RuntimeError(f"turnstile: {name} did not finish its move")


class _FakeJob:
    def __init__(self, ts, owner):
        self.ts = ts
        self.owner = owner
        self.done = threading.Event()
        self.exc = None

    def get(self):
        # the main process blocks here: one model move (`join` / `raise`) per call
        self.ts.wait_turn("m")
        if not self.done.is_set():
            raise RuntimeError("schedule granted job.get() before the job ended")
        if self.exc is not None:
            raise self.exc


class _FakeQueue:
    def __init__(self, ts, local):
        self.ts = ts
        self.local = local
        self.items = []
        self.lock = threading.Lock()

    def put(self, x):
        if getattr(self.local, "name", None) == "m":
            self.ts.wait_turn("m")      # `queue.put(KILL_SIGNAL)` is the model's `kill` move
        with self.lock:
            self.items.append(x)

    def get(self):
        self.ts.wait_turn("r")          # one `write` / `stop` move per item
        with self.lock:
            if not self.items:
                raise RuntimeError("schedule granted the writer an empty queue")
            return self.items.pop(0)


class _FakeManager:
    def __init__(self, q):
        self.q = q

    def Queue(self):
        return self.q


class _FakePool:
    def __init__(self, ts, local, prog, n):
        self.ts, self.local, self.prog = ts, local, prog
        self.threads = []
        self.n_workers = 0

    def apply_async(self, f, args):
        is_writer = getattr(f, "__name__", "") == "_writer"
        name = "r" if is_writer else f"w{self.n_workers}"
        if not is_writer:
            self.n_workers += 1
        job = _FakeJob(self.ts, name)

        def body():
            self.local.name = name
            try:
                f(*args)
            except _Abort:
                pass
            except BaseException as e:   # noqa: BLE001 - stored like multiprocessing does
                job.exc = e
            finally:
                job.done.set()
                self.ts.end(name)

        t = threading.Thread(target=body, daemon=True)
        self.threads.append(t)
        with self.ts.cv:
            self.ts.started.add(name)
        t.start()
        return job

    def close(self):
        pass

    def join(self):
        pass


class _FakeMp:
    def __init__(self, ts, local, prog):
        self.ts, self.local, self.prog = ts, local, prog
        self.queue = _FakeQueue(ts, local)
        self.pool = None

    def Manager(self):
        return _FakeManager(self.queue)

    def Pool(self, n):
        self.pool = _FakePool(self.ts, self.local, self.prog, n)
        return self.pool


def replay_real_protocol(n, k, fails, schedule):
    """Run the real `_run_stdout_multi_core` / `_worker` / `_writer` under `schedule`.

    Loci are 0..n-1; `call_locus` returns str(locus) or raises for loci in `fails`.  Every actor is a thread that moves
    only when granted a turn: a worker before each `call_locus`, the writer before each `queue.get()`, the main process
    before each `job.get()` and before `queue.put(KILL)`.  Returns (exit kind, lines written, queue length) where exit
    kind is "ok" (main returned and the writer left its loop), "err" (main raised) or "running".
    """
    from mchap.application import baseclass

    ts = _Turnstile()
    local = threading.local()
    written = []

    class _Out(io.StringIO):
        def write(self, s):
            if s.endswith("\n"):
                written.append(s[:-1])
            else:
                written.append(s)
            return len(s)

    prog = baseclass.program.__new__(baseclass.program)
    prog.n_cores = k
    prog.samples = []
    prog.sample_bams = {}
    prog.header = lambda: []
    prog.loci = lambda: iter(range(n))

    def call_locus(locus, sample_bams):
        ts.wait_turn(local.name)
        if int(locus) in fails:
            raise ValueError(f"injected failure at locus {int(locus)}")
        return str(int(locus))

    prog.call_locus = call_locus

    class _Locus:
        # what LOCUS_ASSEMBLY_ERROR.format needs
        contig = "c"; start = 0; stop = 1

        def __init__(self, i):
            self.i = i
            self.name = f"l{i}"

        def __int__(self):
            return self.i

    prog.loci = lambda: iter(_Locus(i) for i in range(n))

    fake = _FakeMp(ts, local, prog)
    old_mp, old_out = baseclass.mp, sys.stdout
    main_state = {"exit": "running", "exc": None}

    def main_body():
        local.name = "m"
        try:
            prog._run_stdout_multi_core()
            main_state["exit"] = "returned"
        except _Abort:
            pass
        except BaseException as e:   # noqa: BLE001
            main_state["exit"] = "err"
            main_state["exc"] = repr(e)
        finally:
            ts.end("m")

    baseclass.mp = fake
    sys.stdout = _Out()
    try:
        mt = threading.Thread(target=main_body, daemon=True)
        with ts.cv:
            ts.started.add("m")
        mt.start()
        if not ts.settle():
            raise RuntimeError("turnstile: the actors did not reach their first blocking point")
        for a in schedule:
            ts.grant(a)
        if not ts.settle():
            raise RuntimeError("turnstile: the actors did not settle after the schedule")
        writer_done = "r" in ts.ended
        exit_kind = main_state["exit"]
        lines = [x for x in written if x != ""]
        qlen = len(fake.queue.items)
    finally:
        ts.shutdown()
        mt.join(timeout=5)
        if fake.pool is not None:
            for t in fake.pool.threads:
                t.join(timeout=5)
        sys.stdout = old_out
        baseclass.mp = old_mp
    if exit_kind == "err":
        kind = "err"
    elif exit_kind == "returned" and writer_done:
        kind = "ok"
    else:
        kind = "running"
    return kind, lines, qlen, main_state["exc"]


def gen_schedule(r, n, k, fails, complete):
    """a random schedule of enabled moves (a tiny simulation used only to *generate* it; the driver validates it)"""
    sizes = [len(b) for b in np.array_split(list(range(n)), k)]
    blocks, at = [], 0
    for s in sizes:
        blocks.append(list(range(at, at + s)))
        at += s
    todo = [list(b) for b in blocks]
    alive = [True] * k
    qlen, kill_in_q = 0, False
    main = 0            # index waited for; k+1 = finished; -1 = raised
    writer = True
    sched = []
    limit = 4 * n + 3 * k + 10
    for _ in range(limit):
        moves = []
        if main != -1:
            for i in range(k):
                if alive[i] and todo[i]:
                    moves.append(f"w{i}")
            if writer and qlen > 0:
                moves.append("r")
        if 0 <= main < k and (not alive[main] or not todo[main]):
            moves.append("m")
        if main == k:
            moves.append("m")
        if not moves:
            break
        if not complete and r.random() < 0.08:
            break
        a = r.choice(moves)
        sched.append(a)
        if a == "m":
            if main == k:
                main = k + 1
                qlen += 1
                kill_in_q = True
            elif not alive[main]:
                main = -1
            else:
                main += 1
        elif a == "r":
            qlen -= 1
            if kill_in_q and qlen == 0:
                writer = False
        else:
            i = int(a[1:])
            l = todo[i].pop(0)
            if l in fails:
                alive[i] = False
                todo[i] = []
            else:
                qlen += 1
    return sched


def check_protocol(chk, drv, r, tier):
    n_cases = {"warm": 3, "quick": 60, "thorough": 600}[tier]
    cases = []
    for i in range(n_cases):
        k = r.choice([2, 2, 3, 3, 4, 5])
        n = r.randint(0, 9)
        u = r.random()
        nf = 0 if u < 0.5 else (1 if u < 0.85 else 2)
        fails = sorted(r.sample(range(n), min(nf, n)))
        sched = gen_schedule(r, n, k, fails, complete=r.random() < 0.8)
        cases.append((k, n, fails, sched))
    reqs = [f"sched.run {k} {n} {len(f)} {' '.join(map(str, f))} {' '.join(s)}".replace("  ", " ").strip()
            for k, n, f, s in cases]
    ans = drv.ask(reqs)
    for (k, n, fails, sched), req, a in zip(cases, reqs, ans):
        chk.count(f"schedule:k={k}")
        chk.count("schedule:with-failure" if fails else "schedule:no-failure")
        if a.startswith("stuck") or a == "bad-op":
            chk.disagreement("the harness generated a schedule the model rejects", {"request": req, "model": a})
            continue
        m_exit, m_out, m_q, m_main = [x.strip() for x in a.split("|")]
        try:
            kind, lines, qlen, exc = replay_real_protocol(n, k, set(fails), sched)
        except RuntimeError as e:
            chk.disagreement("the real worker/writer/main code cannot follow a schedule the model accepts",
                             {"request": req, "model": a, "error": str(e)})
            continue
        impl = f"{kind} | {' '.join(lines)} | {qlen}"
        model = f"{m_exit} | {m_out} | {m_q}"
        smp = once(chk, "schedule", {"request": req, "impl": impl, "model": model}) if (fails and n >= 4) else None
        chk.case(req, n >= 3 and k >= 2, sample=smp)
        if impl != model:
            chk.disagreement("real protocol code != model under the same schedule",
                             {"request": req, "impl": impl, "model": model, "main": m_main, "exception": exc})
        # oracle on the implementation: a finished run wrote every line once; a failing locus never gives "ok"
        if kind == "ok":
            chk.count("schedule:ended-ok")
            if fails or sorted(lines, key=int) != [str(i) for i in range(n)]:
                chk.violation("the protocol ended with status 0 but a line is missing / repeated or a locus had failed",
                              {"k": k, "n": n, "fails": fails, "schedule": sched, "lines": lines},
                              "C08/protocol/complete")
        if kind == "err":
            chk.count("schedule:ended-err")
            if not fails:
                chk.violation("the protocol ended with an error although no locus failed",
                              {"k": k, "n": n, "schedule": sched, "exception": exc}, "C08/protocol/spurious-error")


# --------------------------------------------------------------------------------------
# part C: fits and the history of the process
# --------------------------------------------------------------------------------------

def check_fits(chk, r, tier):
    import numba
    from mchap.assemble.mcmc import DenovoMCMC
    from mchap.calling.classes import CallingMCMC
    from mchap.jitutils import seed_numba

    @numba.njit(cache=False)
    def nb_draw(n):
        s = 0.0
        for _ in range(n):
            s += np.random.random()
        return s

    n_cases = {"warm": 2, "quick": 16, "thorough": 160}[tier]
    steps = 120

    def make(kind, seed, ploidy, n_alleles, haps):
        if kind.startswith("denovo"):
            temps = [0.3, 1.0] if kind == "denovo-tempered" else [1.0]
            return DenovoMCMC(ploidy=ploidy, n_alleles=n_alleles, steps=steps, chains=2, random_seed=seed,
                              temperatures=temps)
        return CallingMCMC(ploidy=ploidy, haplotypes=haps, steps=steps, chains=2, random_seed=seed,
                           step_type="Gibbs" if kind == "calling-gibbs" else "Metropolis-Hastings")

    def trace_bytes(model, reads, counts):
        t = model.fit(reads, read_counts=counts)
        return t.genotypes.tobytes() + b"|" + t.llks.tobytes()

    for i in range(n_cases):
        kind = ["denovo", "denovo-tempered", "calling-gibbs", "calling-mh"][i % 4]
        ploidy = r.choice([2, 4, 4, 6])
        n_base = r.randint(2, 5)
        n_alleles = G.gen_n_alleles(r, n_base)
        g = G.gen_genotype(r, ploidy, n_alleles)
        reads, counts = G.gen_reads(r, n_alleles, r.randint(4, 10), haps=g, gap=0.2, style="encoded")
        haps = np.unique(np.array([G.gen_haplotype(r, n_alleles) for _ in range(5)] + g, dtype=np.int8), axis=0)
        seed = r.randint(0, 2 ** 31 - 1)
        # boundary values of the seed are legal seeds too: 0 (falsy) and the largest 32-bit value
        if (i // 4) % 3 == 0:
            seed = 0
        elif (i // 4) % 3 == 1 and i % 8 < 4:
            seed = 2 ** 32 - 2
        k1, k2 = r.randint(1, 50), r.randint(1, 50)
        other_seed = r.randint(0, 2 ** 31 - 1)
        perturb = r.sample(["numpy-draws", "numba-draws", "reseed-both", "unrelated-fit", "unrelated-fit-other-kind"],
                           r.randint(2, 5))

        def do_perturb():
            for p in perturb:
                if p == "numpy-draws":
                    np.random.random(k1)
                elif p == "numba-draws":
                    nb_draw(k2)
                elif p == "reseed-both":
                    np.random.seed(other_seed % (2 ** 32)); seed_numba(other_seed % (2 ** 32))
                elif p == "unrelated-fit":
                    trace_bytes(make(kind, other_seed, ploidy, n_alleles, haps), reads, counts)
                else:
                    ok = "calling-gibbs" if kind.startswith("denovo") else "denovo"
                    trace_bytes(make(ok, other_seed, ploidy, n_alleles, haps), reads, counts)

        a = trace_bytes(make(kind, seed, ploidy, n_alleles, haps), reads, counts)
        do_perturb()
        b = trace_bytes(make(kind, seed, ploidy, n_alleles, haps), reads, counts)
        # is the perturbation observable at all?  (un-seeded fits from two different generator states)
        np.random.seed(1); seed_numba(1)
        u0 = trace_bytes(make(kind, None, ploidy, n_alleles, haps), reads, counts)
        np.random.seed(1); seed_numba(1); nb_draw(k2)
        u1 = trace_bytes(make(kind, None, ploidy, n_alleles, haps), reads, counts)
        observable = u0 != u1
        other = trace_bytes(make(kind, seed + 1, ploidy, n_alleles, haps), reads, counts)
        chk.count(f"fit:{kind}")
        chk.count("fit:perturbation-observable" if observable else "fit:perturbation-not-observable")
        chk.count("fit:other-seed-differs" if other != a else "fit:other-seed-same")
        case = {"kind": kind, "ploidy": ploidy, "n_alleles": n_alleles, "seed": seed, "perturb": perturb,
                "k1": k1, "k2": k2, "reads": reads.shape, "case": i}
        chk.case(case, observable, sample=once(chk, "fit", {
            "request": f"fit {kind} seed={seed} perturb={perturb}",
            "impl": "identical" if a == b else "different",
            "model": "identical (fit_independent_of_prior_rng)"}))
        if a != b:
            chk.violation(f"{kind}: .fit() with a fixed seed returns a different trace after {perturb}",
                          case, "C08/history/fit")


# --------------------------------------------------------------------------------------
# part D: command line runs
# --------------------------------------------------------------------------------------

def perturb_process(r):
    """unrelated work that moves both generators"""
    import numba  # noqa: F401
    from mchap.jitutils import seed_numba
    np.random.random(r.randint(1, 30))
    seed_numba(r.randint(0, 10 ** 6))
    np.random.seed(r.randint(0, 10 ** 6))


def compare_records(chk, what, base_by_id, recs, sig, case, expect_ids=None):
    """every record of `recs` equals the base record of the same locus; ids as expected, each once"""
    got = by_id(recs)
    ok = True
    for i, ls in got.items():
        if len(ls) != 1:
            chk.violation(f"{what}: locus {i} appears {len(ls)} times", {**case, "locus": i}, "C08/cores/once")
            ok = False
        if i not in base_by_id:
            chk.violation(f"{what}: unexpected record {i}", {**case, "locus": i}, "C08/cores/once")
            ok = False
        elif ls[0] != base_by_id[i][0]:
            chk.violation(f"{what}: the record of locus {i} differs", {**case, "locus": i, "got": ls[0][:600],
                                                                         "base": base_by_id[i][0][:600]}, sig)
            ok = False
    if expect_ids is not None:
        missing = [i for i in expect_ids if i not in got]
        if missing:
            chk.violation(f"{what}: exit status 0 but no record for {missing}", {**case, "missing": missing},
                          "C08/cores/once")
            ok = False
    return ok


def check_order_admissible(chk, drv_reqs, what, ids, order_ids, k, case):
    """queue a driver request: is the observed order an interleaving of the model's blocks?"""
    pos = {x: i for i, x in enumerate(ids)}
    if any(x not in pos for x in order_ids):
        return
    drv_reqs.append((f"sched.shuffle {k} {len(ids)} {' '.join(str(pos[x]) for x in order_ids)}", what, case))


def check_cli(chk, drv, r, tier, work):
    run = Runner(chk)
    n_datasets = {"warm": 1, "quick": 1, "thorough": 3}[tier]
    sub_jobs = []       # (label, argv, expectation dict)
    drv_reqs = []
    for d in range(n_datasets):
        n_loci = 6 if tier != "thorough" else r.choice([5, 7, 9])
        n_samples = 2 if d == 0 else 3
        ds = synth.make_dataset(r, os.path.join(work, f"ds{d}"), n_samples=n_samples, n_loci=n_loci, ploidies=(2, 4),
                                max_snvs=4, depth=(6, 14), contig_len=150 * n_loci)
        ids = [l.name for l in ds.loci]
        seed_args = ["--mcmc-seed", str(r.randint(1, 10 ** 6))]
        common = [*MCMC, *seed_args]
        tag = {"dataset": d, "n_loci": n_loci, "n_samples": n_samples}

        # ---------------- assemble
        hdr0, recs0 = run(ds.assemble_argv(*common), "assemble base", base=True)
        raw_hdr = list(run.raw_header)
        base = by_id(recs0)
        chk.count("cli:assemble-base")
        if [rid(l) for l in recs0] != ids:
            chk.disagreement("single-core assemble does not write the records in target order",
                             {**tag, "order": [rid(l) for l in recs0]})
        for l in recs0:
            if not intact(l, n_samples):
                chk.violation("a record line is not intact", {**tag, "line": l[:300]}, "C08/cores/intact")
        # repeated, after unrelated work
        perturb_process(r)
        hdr1, recs1 = run(ds.assemble_argv(*common), "assemble repeat")
        chk.case({**tag, "prog": "assemble", "what": "repeat"}, False)
        if recs1 != recs0:
            compare_records(chk, "assemble repeated in the same process", base, recs1, "C08/repeat/record", tag, ids)
        if hdr1 != hdr0:
            chk.violation("assemble: header differs between repeated runs", {**tag}, "C08/header")
        if tier == "warm":
            continue
        # single-locus runs (BED of one line; --region for two of them)
        for j, l in enumerate(ds.loci):
            if j < 2:
                argv = [a for a in ds.assemble_argv(*common)]
                i = argv.index("--targets")
                argv[i:i + 2] = ["--region", f"{l.contig}:{l.start}-{l.stop}", "--region-id", l.name]
                how = "region"
            else:
                bed = synth.write_bed(os.path.join(work, f"ds{d}.one{j}.bed"), [l])
                argv = ds.assemble_argv(*common)
                argv[argv.index("--targets") + 1] = bed
                how = "bed"
            h, rs = run(argv, "assemble single locus")
            chk.count("cli:assemble-single-locus")
            chk.case({**tag, "prog": "assemble", "what": "single", "locus": l.name, "how": how}, False)
            compare_records(chk, f"assemble on locus {l.name} alone ({how})", base, rs, "C08/order/record",
                            {**tag, "how": how}, [l.name])
            if h != hdr0:
                chk.violation("assemble: header differs for a single-locus run", {**tag, "how": how}, "C08/header")
        # permuted and subset target files
        n_var = 2 if tier == "quick" else 5
        for v in range(n_var):
            sel = list(ds.loci)
            r.shuffle(sel)
            if v % 2 == 1:
                sel = sel[: r.randint(2, max(2, n_loci - 1))]
            bed = synth.write_bed(os.path.join(work, f"ds{d}.var{v}.bed"), sel)
            argv = ds.assemble_argv(*common)
            argv[argv.index("--targets") + 1] = bed
            cores = r.choice([1, 2, 3])
            if cores > 1:
                argv += ["--cores", str(cores)]
            h, rs = run(argv, "assemble permuted/subset")
            want = [l.name for l in sel]
            chk.count("cli:assemble-permuted" if v % 2 == 0 else "cli:assemble-subset")
            chk.case({**tag, "prog": "assemble", "what": "perm/subset", "order": want, "cores": cores},
                     len(want) >= 3 and cores >= 2)
            compare_records(chk, f"assemble with targets {want} (cores {cores})", base, rs, "C08/order/record",
                            {**tag, "order": want, "cores": cores}, want)
            if cores == 1 and [rid(x) for x in rs] != want:
                chk.disagreement("single-core assemble does not follow the order of the targets file",
                                 {**tag, "want": want, "got": [rid(x) for x in rs]})
            if cores > 1:
                check_order_admissible(chk, drv_reqs, "assemble in-process", want, [rid(x) for x in rs], cores,
                                       {**tag, "cores": cores})
            if h != hdr0:
                chk.violation("assemble: header differs for a permuted / subset targets file", {**tag}, "C08/header")
        # cores, in-process (forked workers)
        for cores in ([2, 3, 5, n_loci + 2] if tier == "quick" else [2, 3, 4, 5, n_loci, n_loci + 2, 16]):
            h, rs = run(ds.assemble_argv(*common, "--cores", str(cores)), f"assemble cores {cores}")
            chk.count(f"cli:assemble-cores-inproc")
            chk.case({**tag, "prog": "assemble", "what": "cores-inproc", "cores": cores}, n_loci >= 3)
            compare_records(chk, f"assemble --cores {cores} (forked in-process)", base, rs, "C08/cores/multiset",
                            {**tag, "cores": cores}, ids)
            check_order_admissible(chk, drv_reqs, "assemble in-process", ids, [rid(x) for x in rs], cores,
                                   {**tag, "cores": cores})
            if h != hdr0:
                chk.violation("assemble: header differs between core counts", {**tag, "cores": cores}, "C08/header")
        # cores, real subprocesses
        for cores in ([1, 2, 3, 5] if d == 0 else [3]):
            sub_jobs.append((f"assemble cores={cores}", ds.assemble_argv(*common, "--cores", str(cores)),
                             {"base": base, "hdr": hdr0, "ids": ids, "cores": cores, "tag": {**tag, "prog": "assemble"},
                              "n_samples": n_samples}))

        # ---------------- boundary seed: --mcmc-seed 0 is a seed like any other
        if d == 0 and tier != "warm":
            z = [*MCMC, "--mcmc-seed", "0"]
            zh0, zr0 = run(ds.assemble_argv(*z), "assemble seed 0")
            zbase = by_id(zr0)
            perturb_process(r)
            zh1, zr1 = run(ds.assemble_argv(*z), "assemble seed 0 repeat")
            chk.count("cli:assemble-seed0")
            chk.case({**tag, "prog": "assemble", "what": "seed-0 repeat"}, True)
            if zr1 != zr0:
                compare_records(chk, "assemble --mcmc-seed 0 repeated in the same process", zbase, zr1, "C08/repeat/record",
                                {**tag, "mcmc_seed": 0}, ids)
            zh2, zr2 = run(ds.assemble_argv(*z, "--cores", "2"), "assemble seed 0 cores 2")
            compare_records(chk, "assemble --mcmc-seed 0 --cores 2 (forked in-process)", zbase, zr2, "C08/cores/multiset",
                            {**tag, "mcmc_seed": 0, "cores": 2}, ids)
            sel0 = list(reversed(ds.loci))[: max(2, n_loci - 2)]
            bed0 = synth.write_bed(os.path.join(work, f"ds{d}.seed0.bed"), sel0)
            argv0 = ds.assemble_argv(*z)
            argv0[argv0.index("--targets") + 1] = bed0
            zh3, zr3 = run(argv0, "assemble seed 0 reversed subset")
            compare_records(chk, "assemble --mcmc-seed 0 on a reversed subset of the targets", zbase, zr3, "C08/order/record",
                            {**tag, "mcmc_seed": 0}, [l.name for l in sel0])

        # ---------------- call / call-exact / call-pedigree on the assembled haplotypes
        hv_txt = synth.write_text(os.path.join(work, f"ds{d}.haps.vcf"),
                                  "\n".join(raw_hdr + recs0) + "\n")
        hv = synth.bgzip_tabix_vcf(hv_txt)
        ped = synth.write_text(os.path.join(work, f"ds{d}.ped.txt"),
                               "".join(f"{s}\t{p}\t{q}\n" for s, p, q in _pedigree(ds.samples)))
        for prog in ("call", "call-exact", "call-pedigree"):
            extra = list(common) if prog != "call-exact" else []
            if prog == "call-pedigree":
                extra += ["--sample-parents", ped]
            argv0 = ds.call_argv(prog, hv, *extra)
            perturb_process(r)
            ch0, cr0 = run(argv0, f"{prog} base", base=True)
            cbase = by_id(cr0)
            chk.count(f"cli:{prog}-base")
            perturb_process(r)
            ch1, cr1 = run(argv0, f"{prog} repeat")
            chk.case({**tag, "prog": prog, "what": "repeat"}, False)
            if cr1 != cr0:
                compare_records(chk, f"{prog} repeated in the same process", cbase, cr1, "C08/repeat/record",
                                {**tag, "prog": prog}, ids)
            if ch1 != ch0:
                chk.violation(f"{prog}: header differs between repeated runs", {**tag}, "C08/header")
            # permuted (plain text, no index needed) and subset haplotype files
            for v in range(2 if tier == "quick" else 4):
                sel = list(recs0)
                r.shuffle(sel)
                if v % 2 == 1:
                    sel = sel[: r.randint(2, max(2, n_loci - 1))]
                p = synth.write_text(os.path.join(work, f"ds{d}.{prog}.hv{v}.vcf"),
                                     "\n".join(raw_hdr + sel) + "\n")
                argv = list(argv0)
                argv[argv.index("--haplotypes") + 1] = p
                cores = r.choice([1, 2, 3])
                if cores > 1:
                    argv += ["--cores", str(cores)]
                h, rs = run(argv, f"{prog} permuted/subset haplotypes")
                want = [rid(x) for x in sel]
                chk.count(f"cli:{prog}-permuted" if v % 2 == 0 else f"cli:{prog}-subset")
                chk.case({**tag, "prog": prog, "what": "perm/subset", "order": want, "cores": cores},
                         len(want) >= 3 and cores >= 2)
                compare_records(chk, f"{prog} with haplotype records {want} (cores {cores})", cbase, rs,
                                "C08/order/record", {**tag, "prog": prog, "order": want, "cores": cores}, want)
                if cores == 1 and [rid(x) for x in rs] != want:
                    chk.disagreement(f"single-core {prog} does not follow the order of the haplotypes file",
                                     {**tag, "want": want, "got": [rid(x) for x in rs]})
                if cores > 1:
                    check_order_admissible(chk, drv_reqs, f"{prog} in-process", want, [rid(x) for x in rs], cores,
                                           {**tag, "prog": prog, "cores": cores})
            for cores in ([2, 5] if tier == "quick" else [2, 3, 5, n_loci + 2]):
                h, rs = run(argv0 + ["--cores", str(cores)], f"{prog} cores {cores}")
                chk.count(f"cli:{prog}-cores-inproc")
                chk.case({**tag, "prog": prog, "what": "cores-inproc", "cores": cores}, n_loci >= 3)
                compare_records(chk, f"{prog} --cores {cores} (forked in-process)", cbase, rs, "C08/cores/multiset",
                                {**tag, "prog": prog, "cores": cores}, ids)
                check_order_admissible(chk, drv_reqs, f"{prog} in-process", ids, [rid(x) for x in rs], cores,
                                       {**tag, "prog": prog, "cores": cores})
                if h != ch0:
                    chk.violation(f"{prog}: header differs between core counts", {**tag, "cores": cores}, "C08/header")
            if d == 0 and prog == "call":
                for cores in (1, 3):
                    sub_jobs.append((f"call cores={cores}", argv0 + ["--cores", str(cores)],
                                     {"base": cbase, "hdr": ch0, "ids": ids, "cores": cores,
                                      "tag": {**tag, "prog": "call"}, "n_samples": n_samples}))

        # ---------------- fault injection (real subprocesses)
        if d == 0:
            sub_jobs += fault_jobs(r, tier, work, ds, common)
    return sub_jobs, drv_reqs


def _pedigree(samples):
    """every sample a founder: valid for any mix of ploidies; the sampler still runs (and re-seeds) per locus"""
    return [(s, ".", ".") for s in samples]


def fault_jobs(r, tier, work, ds, common):
    """two kinds of failing locus, placed at chosen positions of the targets file"""
    with_snv = [l for l in ds.loci if l.snv_positions]
    if not with_snv:
        return []
    F = r.choice(with_snv)
    # (i) SNV file whose REF disagrees with the FASTA -> error while the loci are listed (main process)
    loci2 = copy.deepcopy(ds.loci)
    for l in loci2:
        if l.name == F.name:
            als = l.snv_alleles[0]
            free = [b for b in "ACGT" if b not in als]
            if free:
                l.snv_alleles[0] = [free[0]] + list(als[1:]) if len(als) > 1 else [free[0], als[0]]
            else:
                l.snv_alleles[0] = [als[1], als[0]] + list(als[2:])
    bad_vcf = synth.write_snv_vcf(os.path.join(work, "fault.refmismatch.vcf"), ds.contigs, loci2)
    # (ii) alignments whose MD tags describe another reference base at an SNV of F -> error inside a worker
    p = F.snv_positions[0]
    c2 = dict(ds.contigs)
    seq = list(c2[F.contig])
    seq[p] = [b for b in "ACGT" if b != seq[p].upper()][r.randrange(3)]
    c2[F.contig] = "".join(seq)
    bam0 = ds.bams[0]
    bad_bam = synth.write_bam(os.path.join(work, "fault.badmd.bam"), c2, ds.reads[bam0], ds.read_groups[bam0])
    n = len(ds.loci)
    if tier == "thorough":
        positions = list(range(n))
    else:
        positions = sorted({r.choice([0, n - 1]), r.randrange(1, n - 1)})
    others = [l for l in ds.loci if l.name != F.name]
    jobs = []
    for pos in positions:
        order = others[:pos] + [F] + others[pos:]
        bed = synth.write_bed(os.path.join(work, f"fault.pos{pos}.bed"), order)
        ids = [l.name for l in order]
        for kind in ("listing", "worker"):
            for cores in (1, 3):
                argv = ["mchap", "assemble", "--bam", *([bad_bam] + ds.bams[1:] if kind == "worker" else ds.bams),
                        "--ploidy", ds.ploidy_file, "--targets", bed,
                        "--variants", bad_vcf if kind == "listing" else ds.snv_vcf,
                        "--reference", ds.fasta, *common, "--cores", str(cores)]
                jobs.append((f"fault {kind} pos={pos} cores={cores}", argv,
                             {"fault": kind, "pos": pos, "cores": cores, "ids": ids, "failing": F.name,
                              "n_samples": len(ds.samples),
                              "tag": {"prog": "assemble", "fault": kind, "pos": pos, "cores": cores, "n_loci": n}}))
    return jobs


def run_subprocesses(chk, drv, sub_jobs, drv_reqs):
    def one(job):
        label, argv, exp = job
        t0 = time.time()
        out, code, err = synth.run_program_subprocess(argv, timeout=TIMEOUT)
        return label, argv, exp, out, code, err, time.time() - t0

    with ThreadPoolExecutor(max_workers=8) as ex:
        results = list(ex.map(one, sub_jobs))
    single_reqs = []
    for label, argv, exp, out, code, err, dt in results:
        tag = exp["tag"]
        hdr, recs = split_out(out)
        order = [rid(x) for x in recs]
        chk.count("subprocess:" + label.split(" ")[0])
        chk.extra.setdefault("subprocess_wall_s", {})[label] = round(dt, 1)
        nontriv = len(exp["ids"]) >= 3 and exp["cores"] >= 2
        chk.case({**tag, "what": "subprocess", "label": label}, nontriv,
                 sample=once(chk, "subprocess", {"request": label, "impl": f"exit {code}, records {order}",
                                                 "model": "see oracles"}))
        if code == 124:
            chk.violation(f"{label}: no exit within {TIMEOUT} s", {**tag, "argv": argv}, "C08/multicore/hang")
            continue
        for l in recs:
            if not intact(l, exp["n_samples"]):
                chk.violation(f"{label}: a record line is not intact", {**tag, "line": l[:300]}, "C08/cores/intact")
        if "fault" not in exp:
            if code != 0:
                chk.violation(f"{label}: the program fails (exit {code}) although the single-core in-process run succeeds",
                              {**tag, "argv": argv, "exit": code, "stderr": err.strip().split("\n")[-1][:400]},
                              "C08/run/status")
                continue
            compare_records(chk, label + " (subprocess)", exp["base"], recs, "C08/cores/multiset", tag, exp["ids"])
            if hdr != exp["hdr"]:
                chk.violation(f"{label}: header differs from the single-core in-process run", tag, "C08/header")
            if exp["cores"] > 1:
                check_order_admissible(chk, drv_reqs, label, exp["ids"], order, exp["cores"], tag)
            elif order != exp["ids"]:
                chk.disagreement("single-core run does not write the records in target order", {**tag, "order": order})
            continue
        # ---- a failing locus
        failing, ids = exp["failing"], exp["ids"]
        case = {**tag, "exit": code, "records": order, "failing": failing, "stderr": err.strip().split("\n")[-1][:300]}
        if code == 0:
            chk.violation(f"{label}: a locus fails but the exit status is 0"
                          + ("" if failing in order else " and its record is silently missing"),
                          case, "C08/fault/exit-zero")
        if failing in order:
            chk.violation(f"{label}: a record was written for the failing locus", case, "C08/fault/record-written")
        if len(set(order)) != len(order) or any(x not in ids for x in order):
            chk.violation(f"{label}: repeated / unknown records before the failure", case, "C08/cores/once")
        f = ids.index(failing)
        if exp["cores"] == 1:
            single_reqs.append((f"sched.single {len(ids)} 1 {f}", label, ids, order, code, case))
        elif exp["fault"] == "listing":
            if order:
                chk.disagreement("records were written although listing the loci fails before any worker starts",
                                 case)
        else:
            # per block: what was written is a prefix of the block, ending before the failing locus
            sizes = [len(b) for b in np.array_split(list(range(len(ids))), exp["cores"])]
            at = 0
            for s in sizes:
                block = ids[at:at + s]
                at += s
                limit = block.index(failing) if failing in block else len(block)
                seen = [x for x in order if x in block]
                if seen != block[:len(seen)] or len(seen) > limit:
                    chk.disagreement("records of a block are not a prefix of the block (model: workers emit in order and stop at the failure)",
                                     {**case, "block": block, "seen": seen})
    if single_reqs:
        ans = drv.ask([q[0] for q in single_reqs])
        for (req, label, ids, order, code, case), a in zip(single_reqs, ans):
            st, _, outs = a.partition("|")
            m_order = [ids[int(x)] for x in outs.split()]
            impl = ("ok" if code == 0 else "err", order)
            if impl != (st.strip(), m_order):
                chk.disagreement("single-core failing run != runSingle of the model",
                                 {**case, "request": req, "model": a, "impl": impl})
    if drv_reqs:
        ans = drv.ask([q[0] for q in drv_reqs])
        for (req, what, case), a in zip(drv_reqs, ans):
            chk.count("order-admissible" if a == "true" else "order-not-admissible")
            if a != "true":
                chk.disagreement(f"{what}: the order of the records is not an interleaving of the array_split blocks",
                                 {**case, "request": req, "model": a})


# --------------------------------------------------------------------------------------

def run(tier, replay=None):
    chk = C.Check(PROP, tier, MODULE, THEOREMS, RULE, exe=EXE, assumptions=[
        "partial: OS scheduling, pipe atomicity, pickling and multiprocessing internals are not modelled; the interleaving "
        "relation over-approximates them and only the real runs of this check observe them",
        "the samplers' random streams are abstract (any deterministic function of the two generator states); that the code "
        "draws from no other source of randomness is observed (bit-identical traces), not proved",
        "non-zero exit relies on the interpreter terminating the pool / manager at exit after job.get() re-raises (observed "
        "by fault injection incl. a timeout for hangs; in the model `raised` is absorbing)",
        "the tie order of np.argsort, float printing and file parsing are outside this property",
    ])
    chk.prove()
    drv = C.Driver(EXE)
    r = C.rng(PROP)
    work = tempfile.mkdtemp(prefix="verif-c08-")
    try:
        check_split(chk, drv, r, tier)
        check_protocol(chk, drv, r, tier)
        check_fits(chk, r, tier)
        sub_jobs, drv_reqs = check_cli(chk, drv, r, tier, work)
        if tier == "warm":
            sub_jobs = sub_jobs[:1]
        run_subprocesses(chk, drv, sub_jobs, drv_reqs)
    finally:
        shutil.rmtree(work, ignore_errors=True)
    return chk.finish()
