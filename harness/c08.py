"""C08 — determinism: records depend only on inputs and seed, not on cores / order / history.

Proof side: `MCHap.Properties.C08` over `Model/Sched.lean` (RNG as explicit state, `np.array_split` blocks, the
worker / queue / writer protocol as a small-step relation, whole programs).

Correspondence (what ties the model to /repo on this run):
  * `np.array_split` block sizes vs `arraySplit` (driver `sched.split`);
  * the REAL `_run_stdout_multi_core`, `_worker`, `_writer` code executed under forced schedules (threads behind a
    turn-stile replacing `multiprocessing`) vs `runSchedule` of the model (driver `sched.run`): same lines written,
    same exit kind, same queue length, for schedules with and without a failing locus;
  * the order of the records of every real multi-core run must be an interleaving of the model's blocks
    (`sched.shuffle`), the records of a failing single-core run must be the model's prefix (`sched.single`).
Oracles (the property statement itself on what the real programs print / return):
  * multiset of record lines identical for `--cores` 1, 2, 3, 5 (real subprocesses and in-process forks), every
    locus exactly once, every line intact; identical to the single-locus runs, to permuted / subset target files,
    to repeated runs and to runs after unrelated work in the same process; header identical apart from the date
    and command lines;
  * `.fit()` of DenovoMCMC / CallingMCMC / PedigreeCallingMCMC (trio with further progeny, Gibbs and MH) bit-for-bit
    identical after perturbing numpy's and numba's generators and after unrelated fits;
  * fault injection (listing error in the main process, MD / reference mismatch inside a worker, a haplotype record
    with an ALT of another length for the calling programs) at chosen positions, cores 1 and 3: exit status != 0, no
    record for the failing locus, no hang; faults of the processes themselves: a worker killed with SIGKILL while it
    calls a locus, stdout that cannot be written (/dev/full), a reader that goes away after the header;
  * records are keyed by CHROM:POS-END:ID: targets on two contigs, overlapping / nested / repeated targets (a target
    listed k times gives k identical records), BED3 files; sampler / input options otherwise left at their defaults
    (`--mcmc-temperatures` list and per-sample file, `--mcmc-chains`, `--mcmc-llk-cache-threshold 0 / -1`,
    `--use-base-phred-scores`, `--sample-pool` name and file, `--prior-frequencies`), a real pedigree (children of
    S1 x S2, one of them without alignments, mixed ploidy through a gamete-ploidy file); every fresh process runs under
    its own PYTHONHASHSEED.
The real-process runs are started as soon as they are defined and go on while the in-process parts run (`wp6_c08.Jobs`).
The OS scheduler, pipes and `multiprocessing` internals are *not* modelled (partial): only the runs see them.
"""
from __future__ import annotations

import copy
import io
import os
import queue as _queue
import re
import shutil
import sys
import tempfile
import threading
import time
from collections import Counter

import numpy as np

from . import common as C
from . import gen as G
from . import synth
from . import wp6_c08 as W

PROP = "C08"
MODULE = "MCHap.Properties.C08"
EXE = "driver_prog"
THEOREMS = [
    "MCHap.C08.fit_independent_of_prior_rng",
    "MCHap.C08.fitSeq_history_independent",
    "MCHap.C08.fit_unseeded_partial",
    "MCHap.C08.fit_numpy_only_partial",
    "MCHap.C08.arraySplit_partition",
    "MCHap.C08.interleave_perm",
    "MCHap.C08.progress",
    "MCHap.C08.step_decreases",
    "MCHap.C08.no_infinite_execution",
    "MCHap.C08.failure_propagates",
    "MCHap.C08.error_only_on_failure",
    "MCHap.C08.runSingle_spec",
    "MCHap.C08.runMulti_spec",
    "MCHap.C08.cores_agree",
    "MCHap.C08.status_agree",
    "MCHap.C08.record_function_of_locus",
    "MCHap.C08.step?_sound",
    "MCHap.C08.runSchedule_sound",
    "MCHap.C08.isShuffle_sound",
]
RULE = ("cases: (n,k) pairs for array_split; forced schedules of the real worker/writer/main code (k workers, n loci, "
        "0..2 failing loci, random enabled moves); fits (DenovoMCMC with/without tempering, CallingMCMC Gibbs/MH, PedigreeCallingMCMC "
        "Gibbs/MH on a trio with further progeny) before/after RNG perturbation and unrelated fits; CLI runs of assemble / call / "
        "call-exact / call-pedigree (real pedigree, one member without alignments) on synthetic two-contig datasets (7 loci in quick: "
        "every core count 2..6 leaves a remainder) for cores in {1,2,3,4,5,n+2}, permuted / subset / single-locus / overlapping / "
        "nested / repeated / nameless targets, repeated runs, sampler and input options (temperatures, chains, cache threshold, phred "
        "scores, pools, prior frequencies), fresh processes with distinct hash seeds; fault injection (listing error, worker error, "
        "malformed haplotype record) x position x cores {1,3,4}, killed worker, unwritable stdout, closed pipe. "
        "Non-trivial: >= 3 loci and cores >= 2 (CLI, schedules), "
        "k >= 2 and n >= 3 (split), a perturbation that changes the un-seeded result (fits). Distinct by canonical case description.")

MCMC = ["--mcmc-steps", "300", "--mcmc-burn", "100"]
DROP = ("##fileDate", "##commandline")
TIMEOUT = 240
KILL_TIMEOUT = 60          # a 7-locus run takes 6-8 s; a run whose worker was killed never ends on the unchanged tree
KILL_QUIET = 12            # ... and after the header its records follow within a second or two: silence for this long = hung
SIG_KILL_HANG = "C08/fault/worker-killed-hang"
SIG_PIPE_ZERO = "C08/fault/closed-pipe-exit-zero"


# --------------------------------------------------------------------------------------
# helpers on program output
# --------------------------------------------------------------------------------------

def split_out(text):
    """(header lines without date / command line, record lines)"""
    hdr, recs = [], []
    for line in text.split("\n"):
        if not line:
            continue
        if line.startswith("#"):
            if not line.startswith(DROP):
                hdr.append(line)
        else:
            recs.append(line)
    return hdr, recs


def once(chk, key, sample):
    """a sample for the evidence file, at most one per kind of case"""
    seen = chk.__dict__.setdefault("_sampled", set())
    if key in seen:
        return None
    seen.add(key)
    return sample


_END = re.compile(r"(?:^|;)END=(\d+)")


def rid(line):
    """key of a record: CHROM:POS-END:ID (targets may overlap, repeat, lack a name or sit on several contigs)"""
    f = line.split("\t")
    if len(f) < 8:
        return "?"
    m = _END.search(f[7])
    return f"{f[0]}:{f[1]}-{m.group(1) if m else '?'}:{f[2]}"


def lkey(l):
    """the key `rid` gives the record of a target / haplotype locus (synth.Locus; name None = BED3 line)"""
    return f"{l.contig}:{l.start + 1}-{l.stop}:{'.' if l.name is None else l.name}"


def by_id(recs):
    d = {}
    for l in recs:
        d.setdefault(rid(l), []).append(l)
    return d


def intact(line, n_samples):
    f = line.split("\t")
    return len(f) == 9 + n_samples and f[1].isdigit() and all(x != "" for x in f)


class Runner:
    """in-process program runs with bookkeeping"""

    def __init__(self, chk, jobs=None):
        self.chk = chk
        self.jobs = jobs
        self.n = 0

    def __call__(self, argv, what, base=False):
        """(header, records); the base run of a program must succeed (else infrastructure failure); any other run
        failing on inputs derived from a successful base run contradicts the property and is reported"""
        if self.jobs is not None:
            self.jobs.pump()
        out, code, err = synth.run_program(argv)
        self.n += 1
        if code != 0:
            if base:
                raise C.ProgramAbort(f"{what}: in-process run failed with exit {code}: {err[:400]}")
            self.chk.violation(f"{what}: the program fails (exit {code}) although the plain single-core run succeeds",
                               {"what": what, "argv": argv, "exit": code, "error": err[:500]}, "C08/run/status")
        self.raw_header = [l for l in out.split("\n") if l.startswith("#")]
        return split_out(out)


# --------------------------------------------------------------------------------------
# part A: array_split
# --------------------------------------------------------------------------------------

def check_split(chk, drv, r, tier):
    pairs = [(n, k) for n in range(0, 14) for k in range(0, 9)]
    extra = {"warm": 5, "quick": 150, "thorough": 1500}[tier]
    for _ in range(extra):
        pairs.append((r.randint(0, 400), r.randint(1, 40)))
    if tier == "warm":
        pairs = pairs[:20]
    ans = drv.ask([f"sched.split {n} {k}" for n, k in pairs])
    for (n, k), a in zip(pairs, ans):
        try:
            impl = " ".join(str(len(b)) for b in np.array_split(list(range(n)), k))
            blocks = [list(b) for b in np.array_split(list(range(n)), k)]
        except ValueError:
            impl, blocks = "error:ValueError", None
        chk.count("split")
        smp = once(chk, "split", {"request": f"sched.split {n} {k}", "impl": impl, "model": a}) if (n >= 5 and k >= 2 and n % k) else None
        chk.case(f"split {n} {k}", n >= 3 and k >= 2, sample=smp)
        if impl != a:
            chk.disagreement("np.array_split block sizes != arraySplit", {"n": n, "k": k, "impl": impl, "model": a})
        if blocks is not None:
            flat = [x for b in blocks for x in b]
            sizes = [len(b) for b in blocks]
            if flat != list(range(n)) or len(blocks) != k or (sizes and max(sizes) - min(sizes) > 1):
                chk.violation("np.array_split does not partition the loci into k nearly equal consecutive blocks",
                              {"n": n, "k": k, "sizes": sizes}, "C08/array_split/partition")


# --------------------------------------------------------------------------------------
# part B: the real protocol code under forced schedules
# --------------------------------------------------------------------------------------

class _Abort(BaseException):
    """raised inside an actor thread when the replay is over"""


class _Turnstile:
    """actors (threads) run one at a time, only when the schedule grants them a turn"""

    def __init__(self):
        self.cv = threading.Condition()
        self.granted = None      # actor name allowed to run
        self.parked = {}         # actor -> True while waiting for a turn (or ended)
        self.ended = set()
        self.started = set()
        self.abort = False

    def wait_turn(self, name):
        with self.cv:
            self.parked[name] = True
            self.cv.notify_all()
            ok = self.cv.wait_for(lambda: self.granted == name or self.abort, timeout=20)
            if not ok or self.abort:
                raise _Abort(f"turnstile: {name} never got a turn")
            self.parked[name] = False
            self.granted = None      # the turn is consumed

    def end(self, name):
        with self.cv:
            self.ended.add(name)
            self.parked[name] = True
            if self.granted == name:
                self.granted = None
            self.cv.notify_all()

    def settle(self):
        """wait until every started actor is waiting for a turn or has ended"""
        with self.cv:
            return self.cv.wait_for(lambda: all(self.parked.get(a, False) for a in self.started), timeout=20)

    def shutdown(self):
        with self.cv:
            self.abort = True
            self.cv.notify_all()

    def grant(self, name):
        """give `name` one turn and wait until it parks again (or ends)"""
        with self.cv:
            ok = self.cv.wait_for(lambda: self.parked.get(name, False), timeout=20)
            if not ok:
                raise RuntimeError(f"turnstile: {name} is not waiting")
            if name in self.ended:
                raise RuntimeError(f"turnstile: {name} has ended")
            self.granted = name
            self.parked[name] = False
            self.cv.notify_all()
            ok = self.cv.wait_for(lambda: self.parked.get(name, False), timeout=20)
            self.granted = None
            if not ok:
                raise RuntimeError(f"turnstile: {name} did not finish its move")


class _FakeJob:
    def __init__(self, ts, owner):
        self.ts = ts
        self.owner = owner
        self.done = threading.Event()
        self.exc = None

    def get(self):
        if self.owner == "r":
            # collecting the writer's result after KILL is not a protocol move of its own (it is what pool.join()
            # already did): block, parked, until the writer has left its loop
            with self.ts.cv:
                self.ts.parked["m"] = True
                self.ts.cv.notify_all()
            while not self.done.wait(timeout=0.02):
                if self.ts.abort:
                    raise _Abort("turnstile: replay over while waiting for the writer")
            with self.ts.cv:
                self.ts.parked["m"] = False
            if self.exc is not None:
                raise self.exc
            return
        # the main process blocks here: one model move (`join` / `raise`) per call
        self.ts.wait_turn("m")
        if not self.done.is_set():
            raise RuntimeError("schedule granted job.get() before the job ended")
        if self.exc is not None:
            raise self.exc


class _FakeQueue:
    def __init__(self, ts, local):
        self.ts = ts
        self.local = local
        self.items = []
        self.lock = threading.Lock()

    def put(self, x):
        if getattr(self.local, "name", None) == "m":
            self.ts.wait_turn("m")      # `queue.put(KILL_SIGNAL)` is the model's `kill` move
        with self.lock:
            self.items.append(x)

    def get(self):
        self.ts.wait_turn("r")          # one `write` / `stop` move per item
        with self.lock:
            if not self.items:
                raise RuntimeError("schedule granted the writer an empty queue")
            return self.items.pop(0)


class _FakeManager:
    def __init__(self, q):
        self.q = q

    def Queue(self):
        return self.q


class _FakePool:
    def __init__(self, ts, local, prog, n):
        self.ts, self.local, self.prog = ts, local, prog
        self.threads = []
        self.n_workers = 0

    def apply_async(self, f, args):
        is_writer = getattr(f, "__name__", "") == "_writer"
        name = "r" if is_writer else f"w{self.n_workers}"
        if not is_writer:
            self.n_workers += 1
        job = _FakeJob(self.ts, name)

        def body():
            self.local.name = name
            try:
                f(*args)
            except _Abort:
                pass
            except BaseException as e:   # noqa: BLE001 - stored like multiprocessing does
                job.exc = e
            finally:
                job.done.set()
                self.ts.end(name)

        t = threading.Thread(target=body, daemon=True)
        self.threads.append(t)
        with self.ts.cv:
            self.ts.started.add(name)
        t.start()
        return job

    def close(self):
        pass

    def join(self):
        pass


class _FakeMp:
    def __init__(self, ts, local, prog):
        self.ts, self.local, self.prog = ts, local, prog
        self.queue = _FakeQueue(ts, local)
        self.pool = None

    def Manager(self):
        return _FakeManager(self.queue)

    def Pool(self, n):
        self.pool = _FakePool(self.ts, self.local, self.prog, n)
        return self.pool


def replay_real_protocol(n, k, fails, schedule):
    """Run the real `_run_stdout_multi_core` / `_worker` / `_writer` under `schedule`.

    Loci are 0..n-1; `call_locus` returns str(locus) or raises for loci in `fails`.  Every actor is a thread that moves
    only when granted a turn: a worker before each `call_locus`, the writer before each `queue.get()`, the main process
    before each `job.get()` and before `queue.put(KILL)`.  Returns (exit kind, lines written, queue length) where exit
    kind is "ok" (main returned and the writer left its loop), "err" (main raised) or "running".
    """
    from mchap.application import baseclass

    ts = _Turnstile()
    local = threading.local()
    written = []

    class _Out(io.StringIO):
        def write(self, s):
            if s.endswith("\n"):
                written.append(s[:-1])
            else:
                written.append(s)
            return len(s)

    prog = baseclass.program.__new__(baseclass.program)
    prog.n_cores = k
    prog.samples = []
    prog.sample_bams = {}
    prog.header = lambda: []
    prog.loci = lambda: iter(range(n))

    def call_locus(locus, sample_bams):
        ts.wait_turn(local.name)
        if int(locus) in fails:
            raise ValueError(f"injected failure at locus {int(locus)}")
        return str(int(locus))

    prog.call_locus = call_locus

    class _Locus:
        # what LOCUS_ASSEMBLY_ERROR.format needs
        contig = "c"; start = 0; stop = 1

        def __init__(self, i):
            self.i = i
            self.name = f"l{i}"

        def __int__(self):
            return self.i

    prog.loci = lambda: iter(_Locus(i) for i in range(n))

    fake = _FakeMp(ts, local, prog)
    old_mp, old_out = baseclass.mp, sys.stdout
    main_state = {"exit": "running", "exc": None}

    def main_body():
        local.name = "m"
        try:
            prog._run_stdout_multi_core()
            main_state["exit"] = "returned"
        except _Abort:
            pass
        except BaseException as e:   # noqa: BLE001
            main_state["exit"] = "err"
            main_state["exc"] = repr(e)
        finally:
            ts.end("m")

    baseclass.mp = fake
    sys.stdout = _Out()
    try:
        mt = threading.Thread(target=main_body, daemon=True)
        with ts.cv:
            ts.started.add("m")
        mt.start()
        if not ts.settle():
            raise RuntimeError("turnstile: the actors did not reach their first blocking point")
        for a in schedule:
            ts.grant(a)
        if not ts.settle():
            raise RuntimeError("turnstile: the actors did not settle after the schedule")
        writer_done = "r" in ts.ended
        if writer_done:
            mt.join(timeout=10)      # the writer has seen KILL: the main process is past every move and returns
        exit_kind = main_state["exit"]
        lines = [x for x in written if x != ""]
        qlen = len(fake.queue.items)
    finally:
        ts.shutdown()
        mt.join(timeout=5)
        if fake.pool is not None:
            for t in fake.pool.threads:
                t.join(timeout=5)
        sys.stdout = old_out
        baseclass.mp = old_mp
    if exit_kind == "err":
        kind = "err"
    elif exit_kind == "returned" and writer_done:
        kind = "ok"
    else:
        kind = "running"
    return kind, lines, qlen, main_state["exc"]


def gen_schedule(r, n, k, fails, complete):
    """a random schedule of enabled moves (a tiny simulation used only to *generate* it; the driver validates it)"""
    sizes = [len(b) for b in np.array_split(list(range(n)), k)]
    blocks, at = [], 0
    for s in sizes:
        blocks.append(list(range(at, at + s)))
        at += s
    todo = [list(b) for b in blocks]
    alive = [True] * k
    qlen, kill_in_q = 0, False
    main = 0            # index waited for; k+1 = finished; -1 = raised
    writer = True
    sched = []
    limit = 4 * n + 3 * k + 10
    for _ in range(limit):
        moves = []
        if main != -1:
            for i in range(k):
                if alive[i] and todo[i]:
                    moves.append(f"w{i}")
            if writer and qlen > 0:
                moves.append("r")
        if 0 <= main < k and (not alive[main] or not todo[main]):
            moves.append("m")
        if main == k:
            moves.append("m")
        if not moves:
            break
        if not complete and r.random() < 0.08:
            break
        a = r.choice(moves)
        sched.append(a)
        if a == "m":
            if main == k:
                main = k + 1
                qlen += 1
                kill_in_q = True
            elif not alive[main]:
                main = -1
            else:
                main += 1
        elif a == "r":
            qlen -= 1
            if kill_in_q and qlen == 0:
                writer = False
        else:
            i = int(a[1:])
            l = todo[i].pop(0)
            if l in fails:
                alive[i] = False
                todo[i] = []
            else:
                qlen += 1
    return sched


def check_protocol(chk, drv, r, tier, tick=None):
    n_cases = {"warm": 3, "quick": 60, "thorough": 600}[tier]
    cases = []
    for i in range(n_cases):
        k = r.choice([2, 2, 3, 3, 4, 5])
        n = r.randint(0, 9)
        u = r.random()
        nf = 0 if u < 0.5 else (1 if u < 0.85 else 2)
        fails = sorted(r.sample(range(n), min(nf, n)))
        sched = gen_schedule(r, n, k, fails, complete=r.random() < 0.8)
        cases.append((k, n, fails, sched))
    reqs = [f"sched.run {k} {n} {len(f)} {' '.join(map(str, f))} {' '.join(s)}".replace("  ", " ").strip()
            for k, n, f, s in cases]
    ans = drv.ask(reqs)
    for (k, n, fails, sched), req, a in zip(cases, reqs, ans):
        if tick is not None:
            tick()
        chk.count(f"schedule:k={k}")
        chk.count("schedule:with-failure" if fails else "schedule:no-failure")
        if a.startswith("stuck") or a == "bad-op":
            chk.disagreement("the harness generated a schedule the model rejects", {"request": req, "model": a})
            continue
        m_exit, m_out, m_q, m_main = [x.strip() for x in a.split("|")]
        try:
            kind, lines, qlen, exc = replay_real_protocol(n, k, set(fails), sched)
        except RuntimeError as e:
            chk.disagreement("the real worker/writer/main code cannot follow a schedule the model accepts",
                             {"request": req, "model": a, "error": str(e)})
            continue
        impl = f"{kind} | {' '.join(lines)} | {qlen}"
        model = f"{m_exit} | {m_out} | {m_q}"
        smp = once(chk, "schedule", {"request": req, "impl": impl, "model": model}) if (fails and n >= 4) else None
        chk.case(req, n >= 3 and k >= 2, sample=smp)
        if impl != model:
            chk.disagreement("real protocol code != model under the same schedule",
                             {"request": req, "impl": impl, "model": model, "main": m_main, "exception": exc})
        # oracle on the implementation: a finished run wrote every line once; a failing locus never gives "ok"
        if kind == "ok":
            chk.count("schedule:ended-ok")
            if fails or sorted(lines, key=int) != [str(i) for i in range(n)]:
                chk.violation("the protocol ended with status 0 but a line is missing / repeated or a locus had failed",
                              {"k": k, "n": n, "fails": fails, "schedule": sched, "lines": lines},
                              "C08/protocol/complete")
        if kind == "err":
            chk.count("schedule:ended-err")
            if not fails:
                chk.violation("the protocol ended with an error although no locus failed",
                              {"k": k, "n": n, "schedule": sched, "exception": exc}, "C08/protocol/spurious-error")


# --------------------------------------------------------------------------------------
# part C: fits and the history of the process
# --------------------------------------------------------------------------------------

def gen_pedigree_case(r, n_alleles, haps):
    """a trio with a second child (and sometimes a grand-child): ploidies, parents, gametes and per-sample reads in the
    padded layout `call-pedigree` builds (samples x max reads x positions x alleles, NaN padding, zero counts)"""
    ploidy = r.choice([2, 2, 4, 4, 4])
    n = r.choice([4, 4, 5])
    parents = [[-1, -1], [-1, -1], [0, 1], [0, 1]] + ([[2, -1]] if n == 5 else [])
    if r.random() < 0.3:
        parents[3] = [1, 0]
    sample_ploidy = np.full(n, ploidy, dtype=np.int64)
    tau = np.full((n, 2), ploidy // 2, dtype=np.int64)
    lam = np.zeros((n, 2))
    if ploidy == 4 and r.random() < 0.5:
        lam[2] = [r.choice([0.0, 0.1]), r.choice([0.0, 0.25])]
    err = np.full((n, 2), r.choice([0.01, 0.05]))
    per = []
    for i in range(n):
        g = [list(haps[r.randrange(len(haps))]) for _ in range(ploidy)]
        rd, ct = G.gen_reads(r, n_alleles, r.randint(0 if i >= 2 else 3, 8), haps=g, gap=0.2, style="encoded")
        per.append((rd, ct))
    mx = max(1, max(len(rd) for rd, _ in per))
    reads = np.full((n, mx, len(n_alleles), max(n_alleles)), np.nan)
    counts = np.zeros((n, mx), dtype=np.int64)
    for i, (rd, ct) in enumerate(per):
        reads[i, :len(rd)] = rd
        counts[i, :len(ct)] = ct
    return {"sample_ploidy": sample_ploidy, "sample_inbreeding": np.zeros(n), "sample_parents": np.array(parents, dtype=np.int64),
            "gamete_tau": tau, "gamete_lambda": lam, "gamete_error": err}, reads, counts


FIT_KINDS = ["denovo", "denovo-tempered", "calling-gibbs", "calling-mh", "pedigree-gibbs", "pedigree-mh"]


def check_fits(chk, r, tier, tick=None):
    import numba
    from mchap.assemble.mcmc import DenovoMCMC
    from mchap.calling.classes import CallingMCMC
    from mchap.pedigree.classes import PedigreeCallingMCMC
    from mchap.jitutils import seed_numba

    @numba.njit(cache=False)
    def nb_draw(n):
        s = 0.0
        for _ in range(n):
            s += np.random.random()
        return s

    n_cases = {"warm": 3, "quick": 24, "thorough": 240}[tier]
    steps = 120
    nk = len(FIT_KINDS)

    for i in range(n_cases):
        if tick is not None:
            tick()
        kind = FIT_KINDS[i % nk]
        if tier == "warm":
            kind = ["denovo-tempered", "calling-gibbs", "pedigree-gibbs"][i % 3]
        ploidy = r.choice([2, 4, 4, 6])
        n_base = r.randint(2, 5)
        n_alleles = G.gen_n_alleles(r, n_base)
        g = G.gen_genotype(r, ploidy, n_alleles)
        reads, counts = G.gen_reads(r, n_alleles, r.randint(4, 10), haps=g, gap=0.2, style="encoded")
        haps = np.unique(np.array([G.gen_haplotype(r, n_alleles) for _ in range(5)] + g, dtype=np.int8), axis=0)
        ped_kw, ped_reads, ped_counts = gen_pedigree_case(r, n_alleles, haps)
        seed = r.randint(0, 2 ** 31 - 1)
        # boundary values of the seed are legal seeds too: 0 (falsy) and the largest 32-bit value
        rnd = i // nk
        if rnd % 3 == 0:
            seed = 0
        elif rnd % 3 == 1 and i % 2 == 0:
            seed = 2 ** 32 - 2
        k1, k2 = r.randint(1, 50), r.randint(1, 50)
        other_seed = r.randint(0, 2 ** 31 - 1)
        perturb = r.sample(["numpy-draws", "numba-draws", "reseed-both", "unrelated-fit", "unrelated-fit-other-kind",
                            "unrelated-pedigree-fit"], r.randint(2, 6))

        def fit(kind, seed):
            """trace of one fit as bytes (genotypes, and log-likelihoods where the trace has them)"""
            if kind.startswith("pedigree"):
                m = PedigreeCallingMCMC(haplotypes=haps, steps=steps, annealing=steps // 3, chains=2, random_seed=seed,
                                        step_type="Gibbs" if kind == "pedigree-gibbs" else "Metropolis-Hastings", **ped_kw)
                return m.fit(ped_reads, ped_counts).genotypes.tobytes()
            if kind.startswith("denovo"):
                temps = [0.3, 1.0] if kind == "denovo-tempered" else [1.0]
                m = DenovoMCMC(ploidy=ploidy, n_alleles=n_alleles, steps=steps, chains=2, random_seed=seed, temperatures=temps)
            else:
                m = CallingMCMC(ploidy=ploidy, haplotypes=haps, steps=steps, chains=2, random_seed=seed,
                                step_type="Gibbs" if kind == "calling-gibbs" else "Metropolis-Hastings")
            t = m.fit(reads, read_counts=counts)
            return t.genotypes.tobytes() + b"|" + t.llks.tobytes()

        def do_perturb():
            for p in perturb:
                if p == "numpy-draws":
                    np.random.random(k1)
                elif p == "numba-draws":
                    nb_draw(k2)
                elif p == "reseed-both":
                    np.random.seed(other_seed % (2 ** 32)); seed_numba(other_seed % (2 ** 32))
                elif p == "unrelated-fit":
                    fit(kind, other_seed)
                elif p == "unrelated-pedigree-fit":
                    fit("pedigree-gibbs", other_seed)
                else:
                    fit("calling-gibbs" if kind.startswith("denovo") else "denovo", other_seed)

        case = {"kind": kind, "ploidy": ploidy, "n_alleles": n_alleles, "seed": seed, "perturb": perturb,
                "k1": k1, "k2": k2, "reads": reads.shape, "case": i}
        if kind.startswith("pedigree"):
            case.update({"pedigree_ploidy": int(ped_kw["sample_ploidy"][0]), "parents": ped_kw["sample_parents"].tolist(),
                         "lambda": ped_kw["gamete_lambda"].tolist(), "haplotypes": len(haps)})
        chk.breadcrumb("fit", case)
        a = fit(kind, seed)
        do_perturb()
        b = fit(kind, seed)
        # is the perturbation observable at all?  (un-seeded fits from two different generator states)
        np.random.seed(1); seed_numba(1)
        u0 = fit(kind, None)
        np.random.seed(1); seed_numba(1); nb_draw(k2)
        u1 = fit(kind, None)
        other = fit(kind, seed + 1)
        observable = u0 != u1
        chk.count(f"fit:{kind}")
        chk.count("fit:perturbation-observable" if observable else "fit:perturbation-not-observable")
        chk.count("fit:other-seed-differs" if other != a else "fit:other-seed-same")
        chk.case(case, observable, sample=once(chk, "fit", {
            "request": f"fit {kind} seed={seed} perturb={perturb}",
            "impl": "identical" if a == b else "different",
            "model": "identical (fit_independent_of_prior_rng)"}))
        if a != b:
            chk.violation(f"{kind}: .fit() with a fixed seed returns a different trace after {perturb}",
                          case, "C08/history/fit")


# --------------------------------------------------------------------------------------
# part D: command line runs
# --------------------------------------------------------------------------------------

def perturb_process(r):
    """unrelated work that moves both generators"""
    import numba  # noqa: F401
    from mchap.jitutils import seed_numba
    np.random.random(r.randint(1, 30))
    seed_numba(r.randint(0, 10 ** 6))
    np.random.seed(r.randint(0, 10 ** 6))


def compare_records(chk, what, base_by_id, recs, sig, case, expect_ids=None):
    """every record of `recs` equals the base record of the same locus; ids as expected, each once"""
    got = by_id(recs)
    ok = True
    mult = Counter(expect_ids) if expect_ids is not None else {}
    for i, ls in got.items():
        want_n = mult.get(i, 1) if expect_ids is not None else 1      # a target listed k times gives k records
        if len(ls) != want_n:
            chk.violation(f"{what}: locus {i} appears {len(ls)} times (listed {want_n} times)", {**case, "locus": i},
                          "C08/cores/once")
            ok = False
        if i not in base_by_id:
            chk.violation(f"{what}: unexpected record {i}", {**case, "locus": i}, "C08/cores/once")
            ok = False
        elif any(x != base_by_id[i][0] for x in ls):
            bad = next(x for x in ls if x != base_by_id[i][0])
            chk.violation(f"{what}: the record of locus {i} differs", {**case, "locus": i, "got": bad[:600],
                                                                         "base": base_by_id[i][0][:600]}, sig)
            ok = False
    if expect_ids is not None:
        missing = [i for i in expect_ids if i not in got]
        if missing:
            chk.violation(f"{what}: exit status 0 but no record for {missing}", {**case, "missing": missing},
                          "C08/cores/once")
            ok = False
    return ok


def check_order_admissible(chk, drv_reqs, what, ids, order_ids, k, case):
    """queue a driver request: is the observed order an interleaving of the model's blocks?"""
    if len(set(ids)) != len(ids):
        return                      # a target listed twice: positions are ambiguous, the multiset oracle covers it
    pos = {x: i for i, x in enumerate(ids)}
    if any(x not in pos for x in order_ids):
        return
    drv_reqs.append((f"sched.shuffle {k} {len(ids)} {' '.join(str(pos[x]) for x in order_ids)}", what, case))


def hash_env(r):
    """every fresh process gets its own string-hash seed: nothing may depend on set / dict-of-str iteration order"""
    return {"PYTHONHASHSEED": str(r.randint(1, 4_000_000))}


def set_arg(argv, opt, *values):
    """copy of argv with the single value following `opt` replaced by `values`"""
    argv = list(argv)
    i = argv.index(opt)
    argv[i + 1:i + 2] = list(values)
    return argv


def pedigree_files(r, work, ds, tag):
    """A real pedigree over the samples of `ds`: S1, S2 founders, every further sample with alignments their child, and a
    further child D1 listed only in the pedigree file (no alignments: the program adds it as a sample without reads).
    Ploidy / gamete-ploidy files list everybody (as maps by name, lines shuffled).  Returns (option list, sample columns)."""
    s = list(ds.samples)
    p1, p2 = ds.ploidy[s[0]], ds.ploidy[s[1]]
    ploidy = dict(ds.ploidy)
    ploidy["D1"] = p1 // 2 + p2 // 2
    rows = [(s[0], ".", "."), (s[1], ".", ".")] + [(x, s[0], s[1]) for x in s[2:]] + [("D1", s[0], s[1])]
    tau = {s[0]: (p1 // 2, p1 // 2), s[1]: (p2 // 2, p2 // 2), "D1": (p1 // 2, p2 // 2)}
    for x in s[2:]:
        tau[x] = (ds.ploidy[x] // 2, ds.ploidy[x] // 2)       # 1+1 or 2+2: never more than a parent carries
    lines_p = [f"{a}\t{b}\t{c}\n" for a, b, c in rows]
    # the founders come first (a parent must be a known sample before its child is read); the rest is shuffled
    tail = lines_p[2:]
    r.shuffle(tail)
    ped = synth.write_text(os.path.join(work, f"{tag}.ped.txt"), "".join(lines_p[:2] + tail))
    names = list(ploidy)
    r.shuffle(names)
    pl = synth.write_text(os.path.join(work, f"{tag}.ped.ploidy.txt"), "".join(f"{x}\t{ploidy[x]}\n" for x in names))
    r.shuffle(names)
    gp = synth.write_text(os.path.join(work, f"{tag}.ped.gametes.txt"), "".join(f"{x}\t{tau[x][0]}\t{tau[x][1]}\n" for x in names))
    return {"ped": ped, "ploidy": pl, "gametes": gp, "n_columns": len(s) + 1}


def special_targets(chk, r, run, jobs, drv_reqs, work, ds, d, acommon, base, hdr0, tag, tier):
    """targets that overlap, nest, repeat (same and different name), a BED without names, all over two contigs:
    every record equals the record of that target run on its own; a target listed k times gives k identical records"""
    rich = [l for l in ds.loci if len(l.snv_positions) >= 2] or [l for l in ds.loci if l.snv_positions] or list(ds.loci)
    A = r.choice(rich)
    B, Cc = r.choice(ds.loci), r.choice(ds.loci)
    clen = len(ds.contigs[A.contig])
    q = max(1, (A.stop - A.start) // 4)
    nested = synth.Locus("nest1", A.contig, A.start + r.randint(1, q), A.stop - r.randint(1, q), [], [])
    mid = (A.start + A.stop) // 2
    overlap = synth.Locus("ovl1", A.contig, mid, min(clen, A.stop + r.randint(8, 30)), [], [])
    left = synth.Locus("ovl2", A.contig, max(0, A.start - r.randint(5, 20)), A.start + q + 1, [], [])
    alias = synth.Locus("alias1", Cc.contig, Cc.start, Cc.stop, [], [])
    extras = [nested, overlap, left, alias]
    pool = {k: v for k, v in base.items()}
    sp = {**tag, "prog": "assemble", "stream": "special-targets"}
    for x in extras:
        bed = synth.write_bed(os.path.join(work, f"ds{d}.sp.{x.name}.bed"), [x])
        h, rs = run(set_arg(ds.assemble_argv(*acommon), "--targets", bed), f"assemble on target {x.name} alone")
        chk.count("cli:special-single-target")
        if len(rs) != 1 or rid(rs[0]) != lkey(x):
            chk.violation(f"assemble on the single target {lkey(x)} printed {[rid(y) for y in rs]}", {**sp, "target": lkey(x)},
                          "C08/cores/once")
            return
        pool[lkey(x)] = [rs[0]]
    order = list(ds.loci) + extras + [B]            # B twice: same line, same name
    r.shuffle(order)
    want = [lkey(x) for x in order]
    bed = synth.write_bed(os.path.join(work, f"ds{d}.sp.all.bed"), order)
    argv = set_arg(ds.assemble_argv(*acommon), "--targets", bed)
    h, rs = run(argv, "assemble special targets")
    chk.count("cli:special-targets")
    chk.case({**sp, "order": want, "cores": 1}, True)
    compare_records(chk, f"assemble with overlapping / nested / repeated targets {want}", pool, rs, "C08/order/record",
                    {**sp, "order": want}, want)
    if [rid(x) for x in rs] != want:
        chk.disagreement("single-core assemble does not follow the order of the targets file", {**sp, "want": want,
                                                                                              "got": [rid(x) for x in rs]})
    if h != hdr0:
        chk.violation("assemble: header differs for another targets file", sp, "C08/header")
    for cores in ([3] if tier == "quick" else [2, 3, 4]):
        h, rs = run(argv + ["--cores", str(cores)], f"assemble special targets cores {cores}")
        chk.count("cli:special-targets-cores-inproc")
        chk.case({**sp, "order": want, "cores": cores}, True)
        compare_records(chk, f"assemble --cores {cores} with overlapping / nested / repeated targets", pool, rs,
                        "C08/cores/multiset", {**sp, "order": want, "cores": cores}, want)
    order2 = list(order)
    r.shuffle(order2)
    bed2 = synth.write_bed(os.path.join(work, f"ds{d}.sp.perm.bed"), order2)
    cores = r.choice([2, 4, 5])
    jobs.submit(f"assemble special-targets cores={cores}", set_arg(argv, "--targets", bed2) + ["--cores", str(cores)],
                {"base": pool, "hdr": hdr0, "ids": [lkey(x) for x in order2], "cores": cores, "tag": sp,
                 "n_samples": len(ds.samples)}, env=hash_env(r))
    # ---- the same without names (BED3): the key is CHROM:POS-END, records compared among BED3 runs only
    nameless = [synth.Locus(None, x.contig, x.start, x.stop, [], []) for x in list(ds.loci) + [nested, overlap, B]]
    r.shuffle(nameless)
    want3 = [lkey(x) for x in nameless]
    bed3 = synth.write_text(os.path.join(work, f"ds{d}.sp.bed3"), "".join(f"{x.contig}\t{x.start}\t{x.stop}\n" for x in nameless))
    argv3 = set_arg(ds.assemble_argv(*acommon), "--targets", bed3)
    h3, rs3 = run(argv3, "assemble BED3 targets")
    base3 = by_id(rs3)
    chk.count("cli:bed3-targets")
    sp3 = {**sp, "stream": "bed3-targets"}
    chk.case({**sp3, "order": want3, "cores": 1}, True)
    if sorted(rid(x) for x in rs3) != sorted(want3):
        chk.violation(f"assemble on a BED3 file: records {[rid(x) for x in rs3]} for targets {want3}", sp3, "C08/cores/once")
        return
    for k, ls in base3.items():
        if any(x != ls[0] for x in ls):
            chk.violation(f"assemble on a BED3 file: the two records of the repeated target {k} differ", {**sp3, "locus": k},
                          "C08/order/record")
    one = r.choice([x for x in nameless])
    bed31 = synth.write_text(os.path.join(work, f"ds{d}.sp.one.bed3"), f"{one.contig}\t{one.start}\t{one.stop}\n")
    h, rs = run(set_arg(argv3, "--targets", bed31), "assemble one BED3 target")
    compare_records(chk, f"assemble on the BED3 target {lkey(one)} alone", base3, rs, "C08/order/record", sp3, [lkey(one)])
    perm3 = list(nameless)
    r.shuffle(perm3)
    bed3p = synth.write_text(os.path.join(work, f"ds{d}.sp.perm.bed3"), "".join(f"{x.contig}\t{x.start}\t{x.stop}\n" for x in perm3))
    cores = r.choice([2, 3, 4])
    h, rs = run(set_arg(argv3, "--targets", bed3p) + ["--cores", str(cores)], f"assemble BED3 cores {cores}")
    chk.count("cli:bed3-cores-inproc")
    chk.case({**sp3, "order": [lkey(x) for x in perm3], "cores": cores}, True)
    compare_records(chk, f"assemble --cores {cores} on a permuted BED3 file", base3, rs, "C08/cores/multiset",
                    {**sp3, "cores": cores}, [lkey(x) for x in perm3])
    cores = r.choice([3, 5])
    jobs.submit(f"assemble bed3 cores={cores}", argv3 + ["--cores", str(cores)],
                {"base": base3, "hdr": h3, "ids": want3, "cores": cores, "tag": sp3, "n_samples": len(ds.samples)},
                env=hash_env(r))


def long_record_jobs(chk, r, run, jobs, work, ds, d, raw_hdr, tag):
    """call-exact --report GP GL over every allele combination of each locus for 30 single-sample pools: record lines of
    10^5 .. 10^6 bytes.  The single-core run in this process is the reference; the --cores 4 runs write into a pipe."""
    import itertools
    lines = []
    for l in ds.loci:
        if not l.snv_positions:
            continue
        ref = ds.contigs[l.contig][l.start:l.stop]
        combos = list(itertools.product(*[range(len(a)) for a in l.snv_alleles]))[:12]
        alts = []
        for v in combos:
            h = list(ref)
            for p_, a_, i_ in zip(l.snv_positions, l.snv_alleles, v):
                h[p_ - l.start] = a_[i_]
            h = "".join(h)
            if h != ref and h not in alts:
                alts.append(h)
        if alts:
            lines.append(f"{l.contig}\t{l.start + 1}\t{lkey(l).split(':')[-1]}\t{ref}\t{','.join(alts)}\t.\tPASS\t.")
    if len(lines) < 3:
        chk.count("cli:long-records-skipped")
        return
    hdr = [x for x in raw_hdr if x.startswith("##fileformat") or x.startswith("##contig")] + ["#CHROM\tPOS\tID\tREF\tALT\tQUAL\tFILTER\tINFO"]
    hv = synth.bgzip_tabix_vcf(synth.write_text(os.path.join(work, f"ds{d}.haps.long.vcf"), "\n".join(hdr + lines) + "\n"))
    n_pools = 30
    s = ds.samples
    pfile = synth.write_text(os.path.join(work, f"ds{d}.pools30.txt"), "".join(f"{s[i % len(s)]}\tP{i:02d}\n" for i in range(n_pools)))
    ppl = synth.write_text(os.path.join(work, f"ds{d}.pools30.ploidy.txt"),
                           "".join(f"P{i:02d}\t{ds.ploidy[s[i % len(s)]]}\n" for i in range(n_pools)))
    argv = set_arg(ds.call_argv("call-exact", hv), "--ploidy", ppl) + ["--sample-pool", pfile, "--report", "GP", "GL"]
    h0, r0 = run(argv, "call-exact long records base", base=True)
    base = by_id(r0)
    ids = [rid(x) for x in r0]
    sizes = sorted(len(x) for x in r0)
    chk.count("cli:long-records"); chk.count("cli:long-record-bytes>=%d" % (10 ** (len(str(sizes[-1])) - 1)))
    chk.case({**tag, "what": "long records", "line_bytes": sizes}, sizes[-1] > 65536)
    for k in range(3):
        jobs.submit(f"call-exact long-records#{k} cores=4 stdout=pipe", argv + ["--cores", "4"],
                    {"base": base, "hdr": h0, "ids": ids, "cores": 4, "tag": {**tag, "prog": "call-exact", "stdout": "pipe",
                                                                             "longest_line_bytes": sizes[-1]},
                     "n_samples": n_pools}, env=hash_env(r), mode="pipe")


def option_runs(chk, r, run, jobs, work, ds, d, tier, common, hv, raw_hdr, recs0, ped, tag):
    """sampler / input options that are otherwise left at their defaults: each configuration is run single-core in this
    process, again after unrelated work with a permuted subset on several cores, and in fresh processes"""
    s = ds.samples
    n_loci = len(ds.loci)
    tfile = synth.write_text(os.path.join(work, f"ds{d}.temps.txt"), f"{s[-1]}\t0.3\t0.7\n")       # other samples: no tempering
    pools = [(s[0], "PA"), (s[1], "PA"), (s[1], "PB")] + [(x, "PB") for x in s[2:]]
    r.shuffle(pools)
    pfile = synth.write_text(os.path.join(work, f"ds{d}.pools.txt"), "".join(f"{a}\t{b}\n" for a, b in pools))
    ppl = synth.write_text(os.path.join(work, f"ds{d}.pools.ploidy.txt"),
                           f"PB\t{ds.ploidy[s[1]]}\nPA\t{ds.ploidy[s[0]] + ds.ploidy[s[1]]}\n")
    asm = ds.assemble_argv(*common)
    configs = [
        ("assemble", "temperatures-list", asm + ["--mcmc-temperatures", "0.25", "0.6", "--mcmc-chains", "1"], len(s), False),
        ("assemble", "temperatures-file", asm + ["--mcmc-temperatures", tfile, "--mcmc-chains", "3", "--mcmc-llk-cache-threshold", "0"],
         len(s), True),
        ("assemble", "no-cache+phred", asm + ["--mcmc-llk-cache-threshold", "-1", "--use-base-phred-scores"], len(s), False),
        ("assemble", "pool-file", set_arg(asm, "--ploidy", ppl) + ["--sample-pool", pfile], 2, True),
    ]
    cex = ds.call_argv("call-exact", hv)
    cal = ds.call_argv("call", hv, *common)
    cpd = ["mchap", "call-pedigree", "--bam", *ds.bams, "--ploidy", ped["ploidy"], "--haplotypes", hv, "--sample-parents", ped["ped"],
           "--gamete-ploidy", ped["gametes"], *common]
    configs += [
        ("call", "prior+chains", cal + ["--prior-frequencies", "AFP", "--mcmc-chains", "3"], len(s), False),
        ("call", "pool-name", set_arg(cal, "--ploidy", "6") + ["--sample-pool", "ALL", "--use-base-phred-scores"], 1, True),
        ("call-exact", "prior+phred", cex + ["--prior-frequencies", "AFP", "--use-base-phred-scores"], len(s), False),
        ("call-pedigree", "prior+chains", cpd + ["--prior-frequencies", "AFP", "--mcmc-chains", "1"], ped["n_columns"], True),
    ]
    if tier == "thorough":
        configs += [
            ("assemble", "temperatures-one", asm + ["--mcmc-temperatures", "0.5"], len(s), False),
            ("call-exact", "pool-file", set_arg(cex, "--ploidy", ppl) + ["--sample-pool", pfile, "--prior-frequencies", "AFP"], 2, True),
            ("call-pedigree", "chains3", cpd + ["--mcmc-chains", "3", "--use-base-phred-scores"], ped["n_columns"], False),
        ]
    for prog, name, argv, n_cols, fresh_single in configs:
        otag = {**tag, "prog": prog, "options": name}
        out, code, err = synth.run_program(argv)
        chk.count(f"cli:options:{prog}:{name}")
        if code != 0:
            # not this property's business (C07 / C16 judge whether the options are accepted); nothing to compare
            chk.count("cli:options:base-run-fails")
            chk.notes.append(f"{prog} with {name} fails on dataset {d}: {err[:160]}")
            continue
        oh, orecs = split_out(out)
        obase = by_id(orecs)
        oids = [rid(x) for x in orecs]
        for l in orecs:
            if not intact(l, n_cols):
                chk.violation(f"{prog} ({name}): a record line is not intact", {**otag, "line": l[:300]}, "C08/cores/intact")
        # (i) after unrelated work, permuted subset, several cores, same process
        perturb_process(r)
        if prog == "assemble":
            sel = list(ds.loci)
            r.shuffle(sel)
            sel = sel[: r.randint(3, n_loci)]
            bed = synth.write_bed(os.path.join(work, f"ds{d}.opt.{name}.bed"), sel)
            argv2 = set_arg(argv, "--targets", bed)
            want = [lkey(x) for x in sel]
        else:
            sel = list(recs0)
            r.shuffle(sel)
            sel = sel[: r.randint(3, n_loci)]
            p = synth.write_text(os.path.join(work, f"ds{d}.opt.{prog}.{name}.vcf"), "\n".join(raw_hdr + sel) + "\n")
            argv2 = set_arg(argv, "--haplotypes", p)
            want = [rid(x) for x in sel]
        cores = r.choice([2, 3])
        h, rs = run(argv2 + ["--cores", str(cores)], f"{prog} ({name}) permuted subset cores {cores}")
        chk.case({**otag, "what": "perm/subset", "order": want, "cores": cores}, True)
        compare_records(chk, f"{prog} ({name}) with {want} (cores {cores}) after unrelated work", obase, rs, "C08/options/record",
                        {**otag, "order": want, "cores": cores}, want)
        if h != oh:
            chk.violation(f"{prog} ({name}): header differs between runs", otag, "C08/header")
        # (ii) fresh processes
        cores = r.choice([3, 4, 5])
        jobs.submit(f"{prog} options={name} cores={cores}", argv + ["--cores", str(cores)],
                    {"base": obase, "hdr": oh, "ids": oids, "cores": cores, "tag": otag, "n_samples": n_cols, "sig": "C08/options/record"},
                    env=hash_env(r))
        if fresh_single or tier == "thorough":
            jobs.submit(f"{prog} options={name} cores=1", argv,
                        {"base": obase, "hdr": oh, "ids": oids, "cores": 1, "tag": otag, "n_samples": n_cols, "sig": "C08/options/record"},
                        env=hash_env(r))


def check_cli(chk, drv, r, tier, work, jobs):
    run = Runner(chk, jobs)
    n_datasets = {"warm": 1, "quick": 1, "thorough": 3}[tier]
    drv_reqs = []
    for d in range(n_datasets):
        # 7 loci: no core count in 2..6 divides them (the last block of an uneven split is where loci get lost)
        n_loci = 7 if tier != "thorough" else r.choice([5, 7, 10, 11])
        n_samples = 2 if d == 0 else 3
        ds = synth.make_dataset(r, os.path.join(work, f"ds{d}"), n_samples=n_samples, n_loci=n_loci, ploidies=(2, 4),
                                max_snvs=4, depth=(6, 14), n_contigs=2, contig_len=150 * ((n_loci + 1) // 2))
        ids = [lkey(l) for l in ds.loci]
        seed_args = ["--mcmc-seed", str(r.randint(1, 10 ** 6))]
        common = [*MCMC, *seed_args]
        acommon = [*common, "--report", "AFP"]          # INFO/AFP is what --prior-frequencies reads further down
        tag = {"dataset": d, "n_loci": n_loci, "n_samples": n_samples}
        chk.count(f"cli:loci={n_loci}")

        # ---------------- assemble
        hdr0, recs0 = run(ds.assemble_argv(*acommon), "assemble base", base=True)
        raw_hdr = list(run.raw_header)
        base = by_id(recs0)
        chk.count("cli:assemble-base")
        # faults of the processes themselves are started first: a hang costs its whole time-out
        if d == 0 and tier != "warm":
            process_fault_jobs(r, tier, ds, acommon, jobs, len(raw_hdr))
        if [rid(l) for l in recs0] != ids:
            chk.disagreement("single-core assemble does not write the records in target order",
                             {**tag, "order": [rid(l) for l in recs0]})
        for l in recs0:
            if not intact(l, n_samples):
                chk.violation("a record line is not intact", {**tag, "line": l[:300]}, "C08/cores/intact")
        # repeated, after unrelated work
        perturb_process(r)
        hdr1, recs1 = run(ds.assemble_argv(*acommon), "assemble repeat")
        chk.case({**tag, "prog": "assemble", "what": "repeat"}, False)
        if recs1 != recs0:
            compare_records(chk, "assemble repeated in the same process", base, recs1, "C08/repeat/record", tag, ids)
        if hdr1 != hdr0:
            chk.violation("assemble: header differs between repeated runs", {**tag}, "C08/header")
        if tier == "warm":
            continue
        # single-locus runs (BED of one line; --region for two of them)
        for j, l in enumerate(ds.loci):
            if j < 2:
                argv = [a for a in ds.assemble_argv(*acommon)]
                i = argv.index("--targets")
                argv[i:i + 2] = ["--region", f"{l.contig}:{l.start}-{l.stop}", "--region-id", l.name]
                how = "region"
            else:
                bed = synth.write_bed(os.path.join(work, f"ds{d}.one{j}.bed"), [l])
                argv = ds.assemble_argv(*acommon)
                argv[argv.index("--targets") + 1] = bed
                how = "bed"
            h, rs = run(argv, "assemble single locus")
            chk.count("cli:assemble-single-locus")
            chk.case({**tag, "prog": "assemble", "what": "single", "locus": l.name, "how": how}, False)
            compare_records(chk, f"assemble on locus {l.name} alone ({how})", base, rs, "C08/order/record",
                            {**tag, "how": how}, [lkey(l)])
            if h != hdr0:
                chk.violation("assemble: header differs for a single-locus run", {**tag, "how": how}, "C08/header")
        # permuted and subset target files
        n_var = 2 if tier == "quick" else 5
        for v in range(n_var):
            sel = list(ds.loci)
            r.shuffle(sel)
            if v % 2 == 1:
                sel = sel[: r.randint(2, max(2, n_loci - 1))]
            bed = synth.write_bed(os.path.join(work, f"ds{d}.var{v}.bed"), sel)
            argv = ds.assemble_argv(*acommon)
            argv[argv.index("--targets") + 1] = bed
            cores = r.choice([1, 2, 3])
            if cores > 1:
                argv += ["--cores", str(cores)]
            h, rs = run(argv, "assemble permuted/subset")
            want = [lkey(l) for l in sel]
            chk.count("cli:assemble-permuted" if v % 2 == 0 else "cli:assemble-subset")
            chk.case({**tag, "prog": "assemble", "what": "perm/subset", "order": want, "cores": cores},
                     len(want) >= 3 and cores >= 2)
            compare_records(chk, f"assemble with targets {want} (cores {cores})", base, rs, "C08/order/record",
                            {**tag, "order": want, "cores": cores}, want)
            if cores == 1 and [rid(x) for x in rs] != want:
                chk.disagreement("single-core assemble does not follow the order of the targets file",
                                 {**tag, "want": want, "got": [rid(x) for x in rs]})
            if cores > 1:
                check_order_admissible(chk, drv_reqs, "assemble in-process", want, [rid(x) for x in rs], cores,
                                       {**tag, "cores": cores})
            if h != hdr0:
                chk.violation("assemble: header differs for a permuted / subset targets file", {**tag}, "C08/header")
        # cores, in-process (forked workers); with 7 loci every count in 2..6 leaves a remainder
        for cores in ([2, 3, 4, 5, n_loci + 2] if tier == "quick" else [2, 3, 4, 5, 6, n_loci, n_loci + 2, 16]):
            h, rs = run(ds.assemble_argv(*acommon, "--cores", str(cores)), f"assemble cores {cores}")
            chk.count(f"cli:assemble-cores-inproc")
            chk.count("cli:cores-with-remainder" if (n_loci % cores and cores <= n_loci) else "cli:cores-even-or-more-than-loci")
            chk.case({**tag, "prog": "assemble", "what": "cores-inproc", "cores": cores}, n_loci >= 3)
            compare_records(chk, f"assemble --cores {cores} (forked in-process)", base, rs, "C08/cores/multiset",
                            {**tag, "cores": cores}, ids)
            check_order_admissible(chk, drv_reqs, "assemble in-process", ids, [rid(x) for x in rs], cores,
                                   {**tag, "cores": cores})
            if h != hdr0:
                chk.violation("assemble: header differs between core counts", {**tag, "cores": cores}, "C08/header")
        # cores, real subprocesses
        for cores in ([1, 2, 3, 5] if d == 0 else [3]):
            jobs.submit(f"assemble cores={cores}", ds.assemble_argv(*acommon, "--cores", str(cores)),
                        {"base": base, "hdr": hdr0, "ids": ids, "cores": cores, "tag": {**tag, "prog": "assemble"},
                         "n_samples": n_samples}, env=hash_env(r))

        # ---------------- one alignment file holding every sample: the sample columns must not depend on the process
        # (fresh interpreters get different string-hash seeds)
        if d == 0 and tier != "warm":
            ms = synth.make_dataset(C.rng(PROP + ":multi-sample-bam"), os.path.join(work, "dsM"), n_samples=5, n_loci=2, ploidies=(2, 4),
                                    max_snvs=3, depth=(5, 9), contig_len=300)
            merged = synth.merge_bams(os.path.join(work, "dsM.all-samples.bam"), ms.contigs, ms, list(ms.bams))
            margv = ms.assemble_argv(*acommon)
            i0 = margv.index("--bam")
            i1 = next(j for j in range(i0 + 1, len(margv)) if margv[j].startswith("--"))
            margv[i0 + 1:i1] = [merged]
            mh, mrecs = run(margv, "assemble multi-sample BAM", base=True)
            mids = [lkey(l) for l in ms.loci]
            chk.count("cli:multi-sample-bam")
            for k_ in range(2 if tier == "quick" else 4):
                jobs.submit(f"assemble multi-sample BAM fresh process {k_}", margv,
                            {"base": by_id(mrecs), "hdr": mh, "ids": mids, "cores": 1,
                             "tag": {**tag, "prog": "assemble", "bam": "five samples in one file"}, "n_samples": 5}, env=hash_env(r))

        # ---------------- overlapping / nested / repeated / nameless targets
        if d == 0 or tier == "thorough":
            special_targets(chk, r, run, jobs, drv_reqs, work, ds, d, acommon, base, hdr0, tag, tier)

        # ---------------- boundary seed: --mcmc-seed 0 is a seed like any other
        if d == 0 and tier != "warm":
            z = [*MCMC, "--mcmc-seed", "0"]
            zh0, zr0 = run(ds.assemble_argv(*z), "assemble seed 0")
            zbase = by_id(zr0)
            perturb_process(r)
            zh1, zr1 = run(ds.assemble_argv(*z), "assemble seed 0 repeat")
            chk.count("cli:assemble-seed0")
            chk.case({**tag, "prog": "assemble", "what": "seed-0 repeat"}, True)
            if zr1 != zr0:
                compare_records(chk, "assemble --mcmc-seed 0 repeated in the same process", zbase, zr1, "C08/repeat/record",
                                {**tag, "mcmc_seed": 0}, ids)
            zh2, zr2 = run(ds.assemble_argv(*z, "--cores", "2"), "assemble seed 0 cores 2")
            compare_records(chk, "assemble --mcmc-seed 0 --cores 2 (forked in-process)", zbase, zr2, "C08/cores/multiset",
                            {**tag, "mcmc_seed": 0, "cores": 2}, ids)
            sel0 = list(reversed(ds.loci))[: max(2, n_loci - 2)]
            bed0 = synth.write_bed(os.path.join(work, f"ds{d}.seed0.bed"), sel0)
            argv0 = ds.assemble_argv(*z)
            argv0[argv0.index("--targets") + 1] = bed0
            zh3, zr3 = run(argv0, "assemble seed 0 reversed subset")
            compare_records(chk, "assemble --mcmc-seed 0 on a reversed subset of the targets", zbase, zr3, "C08/order/record",
                            {**tag, "mcmc_seed": 0}, [lkey(l) for l in sel0])

        # ---------------- call / call-exact / call-pedigree on the assembled haplotypes
        # one record of the haplotypes file carries the REFMASKED flag (its reference allele gets prior 0): whatever a
        # program derives for it must stay with that record, wherever it stands relative to records of equal allele count
        recs_c = list(recs0)
        n_alt_of = lambda l: 0 if l.split("\t")[4] == "." else len(l.split("\t")[4].split(","))
        cand = [i for i, l in enumerate(recs_c) if n_alt_of(l) and "REFMASKED" not in l.split("\t")[7]]
        if len(cand) >= 2 and d % 2 == 0:
            # the masked record stands between two others; one of its neighbours in the file has (or is cut down to) the
            # same number of alleles
            pairs = [(i, j) for i in cand[1:] for j in cand if j != i and n_alt_of(recs_c[i]) == n_alt_of(recs_c[j])]
            if pairs:
                i, j = pairs[len(pairs) // 2]
            else:
                i, j = cand[len(cand) // 2], cand[0]
                k = min(n_alt_of(recs_c[i]), n_alt_of(recs_c[j]))
                for x in (i, j):
                    f = recs_c[x].split("\t")
                    f[4] = ",".join(f[4].split(",")[:k])
                    f[7] = ";".join(t if not t.startswith(("AFP=", "AC=", "AOP=", "ACP=")) else
                                    t.split("=")[0] + "=" + ",".join(t.split("=")[1].split(",")[: k + (t[:3] in ("AFP", "AOP", "ACP"))])
                                    for t in f[7].split(";"))
                    recs_c[x] = "\t".join(f)
                chk.count("cli:haplotypes-file-record-cut-to-equal-allele-count")
            f = recs_c[i].split("\t")
            f[7] = "REFMASKED" if f[7] in (".", "") else f[7] + ";REFMASKED"
            recs_c[i] = "\t".join(f)
            chk.count("cli:haplotypes-file-with-REFMASKED-record-beside-record-of-equal-allele-count")
        hv_txt = synth.write_text(os.path.join(work, f"ds{d}.haps.vcf"),
                                  "\n".join(raw_hdr + recs_c) + "\n")
        hv = synth.bgzip_tabix_vcf(hv_txt)
        ped = pedigree_files(r, work, ds, f"ds{d}")
        # the records without the flag, alone: run by every program BEFORE this process has seen a masked record (state kept
        # between loci or runs would be set by the first masked record and then look the same in every later run), and again
        # in a fresh process
        plain = [l for l in recs_c if "REFMASKED" not in l.split("\t")[7]]
        plain_p = synth.write_text(os.path.join(work, f"ds{d}.haps.plain.vcf"), "\n".join(raw_hdr + plain) + "\n")
        call_argvs, pre = {}, {}
        for prog in ("call", "call-exact", "call-pedigree"):
            extra = list(common) if prog != "call-exact" else []
            if prog == "call-pedigree":
                # a real pedigree (children of S1 x S2, one of them without alignments), mixed ploidy via a gamete file
                call_argvs[prog] = ["mchap", prog, "--bam", *ds.bams, "--ploidy", ped["ploidy"], "--haplotypes", hv, *extra,
                                    "--sample-parents", ped["ped"], "--gamete-ploidy", ped["gametes"]]
            else:
                call_argvs[prog] = ds.call_argv(prog, hv, *extra)
            if plain and len(plain) < len(recs_c):
                pre[prog] = run(set_arg(call_argvs[prog], "--haplotypes", plain_p), f"{prog} unflagged records first")[1]
                chk.count(f"cli:{prog}-unflagged-records-before-any-masked-record")
        for prog in ("call", "call-exact", "call-pedigree"):
            n_cols = ped["n_columns"] if prog == "call-pedigree" else n_samples
            argv0 = call_argvs[prog]
            perturb_process(r)
            ch0, cr0 = run(argv0, f"{prog} base", base=True)
            cbase = by_id(cr0)
            chk.count(f"cli:{prog}-base")
            if prog in pre:
                want = [rid(x) for x in plain]
                chk.case({**tag, "prog": prog, "what": "unflagged records first", "order": want}, True)
                compare_records(chk, f"{prog} with the records {want} alone, before the process has read any REFMASKED record",
                                cbase, pre[prog], "C08/order/record", {**tag, "prog": prog, "order": want}, want)
                jobs.submit(f"{prog} unflagged-records cores=1", set_arg(argv0, "--haplotypes", plain_p),
                            {"base": cbase, "hdr": None, "ids": want, "cores": 1, "tag": {**tag, "prog": prog},
                             "n_samples": n_cols, "sig": "C08/order/record"}, env=hash_env(r))
            for l in cr0:
                if not intact(l, n_cols):
                    chk.violation(f"{prog}: a record line is not intact", {**tag, "line": l[:300]}, "C08/cores/intact")
            perturb_process(r)
            ch1, cr1 = run(argv0, f"{prog} repeat")
            chk.case({**tag, "prog": prog, "what": "repeat"}, False)
            if cr1 != cr0:
                compare_records(chk, f"{prog} repeated in the same process", cbase, cr1, "C08/repeat/record",
                                {**tag, "prog": prog}, ids)
            if ch1 != ch0:
                chk.violation(f"{prog}: header differs between repeated runs", {**tag}, "C08/header")
            # permuted (plain text, no index needed) and subset haplotype files
            for v in range(2 if tier == "quick" else 4):
                sel = list(recs_c)
                if v == 0:
                    sel.reverse()           # every pair of records changes its relative order
                else:
                    r.shuffle(sel)
                if v % 2 == 1:
                    sel = sel[: r.randint(2, max(2, n_loci - 1))]
                p = synth.write_text(os.path.join(work, f"ds{d}.{prog}.hv{v}.vcf"),
                                     "\n".join(raw_hdr + sel) + "\n")
                argv = list(argv0)
                argv[argv.index("--haplotypes") + 1] = p
                cores = r.choice([1, 2, 3])
                if cores > 1:
                    argv += ["--cores", str(cores)]
                h, rs = run(argv, f"{prog} permuted/subset haplotypes")
                want = [rid(x) for x in sel]
                chk.count(f"cli:{prog}-permuted" if v % 2 == 0 else f"cli:{prog}-subset")
                chk.case({**tag, "prog": prog, "what": "perm/subset", "order": want, "cores": cores},
                         len(want) >= 3 and cores >= 2)
                compare_records(chk, f"{prog} with haplotype records {want} (cores {cores})", cbase, rs,
                                "C08/order/record", {**tag, "prog": prog, "order": want, "cores": cores}, want)
                if cores == 1 and [rid(x) for x in rs] != want:
                    chk.disagreement(f"single-core {prog} does not follow the order of the haplotypes file",
                                     {**tag, "want": want, "got": [rid(x) for x in rs]})
                if cores > 1:
                    check_order_admissible(chk, drv_reqs, f"{prog} in-process", want, [rid(x) for x in rs], cores,
                                           {**tag, "prog": prog, "cores": cores})
            for cores in ([2, 5] if tier == "quick" else [2, 3, 4, 5, n_loci + 2]):
                h, rs = run(argv0 + ["--cores", str(cores)], f"{prog} cores {cores}")
                chk.count(f"cli:{prog}-cores-inproc")
                chk.count("cli:cores-with-remainder" if (n_loci % cores and cores <= n_loci) else "cli:cores-even-or-more-than-loci")
                chk.case({**tag, "prog": prog, "what": "cores-inproc", "cores": cores}, n_loci >= 3)
                compare_records(chk, f"{prog} --cores {cores} (forked in-process)", cbase, rs, "C08/cores/multiset",
                                {**tag, "prog": prog, "cores": cores}, ids)
                check_order_admissible(chk, drv_reqs, f"{prog} in-process", ids, [rid(x) for x in rs], cores,
                                       {**tag, "prog": prog, "cores": cores})
                if h != ch0:
                    chk.violation(f"{prog}: header differs between core counts", {**tag, "cores": cores}, "C08/header")
            # fresh processes: every program has a fresh single-core baseline and an uneven multi-core run
            if d == 0:
                for cores in ((1, 3) if prog == "call" else (1, 4)):
                    jobs.submit(f"{prog} cores={cores}", argv0 + ["--cores", str(cores)],
                                {"base": cbase, "hdr": ch0, "ids": ids, "cores": cores,
                                 "tag": {**tag, "prog": prog}, "n_samples": n_cols}, env=hash_env(r))

        # ---------------- records far longer than a pipe buffer, several cores, stdout a pipe
        if d == 0 and tier != "warm":
            long_record_jobs(chk, r, run, jobs, work, ds, d, raw_hdr, tag)

        # ---------------- sampler / input options
        if d == 0 or tier == "thorough":
            option_runs(chk, r, run, jobs, work, ds, d, tier, common, hv, raw_hdr, recs_c, ped, tag)

        # ---------------- fault injection (real subprocesses)
        if d == 0:
            fault_jobs(r, tier, work, ds, acommon, common, jobs, raw_hdr, recs_c, ped)
    return drv_reqs


def process_fault_jobs(r, tier, ds, acommon, jobs, n_header):
    """a worker process killed from outside (SIGKILL, what the OOM killer does) while it calls one locus; stdout that
    cannot be written (ENOSPC from the first flush); a reader that goes away after the header (EPIPE in the writer process).
    In every case the run must end, and end with a non-zero status."""
    n = len(ds.loci)
    ids = [lkey(l) for l in ds.loci]
    base_argv = ds.assemble_argv(*acommon)
    kills = [(r.randrange(n), 3)] if tier != "thorough" else [(p, c) for p in sorted({0, n // 2, n - 1}) for c in (2, 3)]
    for pos, cores in kills:
        F = ds.loci[pos]
        jobs.submit(f"fault killed pos={pos} cores={cores}", base_argv + ["--cores", str(cores)],
                    {"fault": "killed", "pos": pos, "cores": cores, "ids": ids, "failing": lkey(F), "n_samples": len(ds.samples),
                     "tag": {"prog": "assemble", "fault": "killed", "pos": pos, "cores": cores, "n_loci": n}},
                    timeout=KILL_TIMEOUT, quiet=KILL_QUIET, env=hash_env(r), kill_locus=F.name)
    # closed pipe: the reader (`head -n <header lines>`) leaves as soon as it has the header, which the multi-core main process
    # flushes before it even creates the pool: every record write of the writer process comes later and fails with EPIPE.
    # (Single-core runs buffer header and records together: whether a write fails there depends on sizes and timing.)
    for what, core_list in (("devfull", (1, 3)), ("closed-pipe", (3,) if tier != "thorough" else (2, 3, 5))):
        for cores in core_list:
            jobs.submit(f"fault {what} cores={cores}", base_argv + ["--cores", str(cores)],
                        {"fault": what, "pos": None, "cores": cores, "ids": ids, "failing": None, "n_samples": len(ds.samples),
                         "tag": {"prog": "assemble", "fault": what, "cores": cores, "n_loci": n}},
                        env=hash_env(r), mode=what, keep_lines=n_header)


def fault_jobs(r, tier, work, ds, acommon, common, jobs, raw_hdr, recs0, ped):
    """failing loci placed at chosen positions: (i) listing error in the main process, (ii) error inside a worker,
    (iii) a malformed haplotype record (ALT of another length than REF) for the calling programs"""
    with_snv = [l for l in ds.loci if l.snv_positions]
    if not with_snv:
        return
    F = r.choice(with_snv)
    # (i) SNV file whose REF disagrees with the FASTA -> error while the loci are listed (main process)
    loci2 = copy.deepcopy(ds.loci)
    for l in loci2:
        if l.name == F.name:
            als = l.snv_alleles[0]
            free = [b for b in "ACGT" if b not in als]
            if free:
                l.snv_alleles[0] = [free[0]] + list(als[1:]) if len(als) > 1 else [free[0], als[0]]
            else:
                l.snv_alleles[0] = [als[1], als[0]] + list(als[2:])
    bad_vcf = synth.write_snv_vcf(os.path.join(work, "fault.refmismatch.vcf"), ds.contigs, loci2)
    # (ii) alignments whose MD tags describe another reference base at an SNV of F -> error inside a worker
    p = F.snv_positions[0]
    c2 = dict(ds.contigs)
    seq = list(c2[F.contig])
    seq[p] = [b for b in "ACGT" if b != seq[p].upper()][r.randrange(3)]
    c2[F.contig] = "".join(seq)
    bam0 = ds.bams[0]
    bad_bam = synth.write_bam(os.path.join(work, "fault.badmd.bam"), c2, ds.reads[bam0], ds.read_groups[bam0])
    n = len(ds.loci)
    if tier == "thorough":
        positions = list(range(n))
    else:
        positions = sorted({r.choice([0, n - 1]), r.randrange(1, n - 1)})
    others = [l for l in ds.loci if l.name != F.name]
    for pos in positions:
        order = others[:pos] + [F] + others[pos:]
        bed = synth.write_bed(os.path.join(work, f"fault.pos{pos}.bed"), order)
        ids = [lkey(l) for l in order]
        for kind in ("listing", "worker"):
            for cores in (1, 3):
                argv = ["mchap", "assemble", "--bam", *([bad_bam] + ds.bams[1:] if kind == "worker" else ds.bams),
                        "--ploidy", ds.ploidy_file, "--targets", bed,
                        "--variants", bad_vcf if kind == "listing" else ds.snv_vcf,
                        "--reference", ds.fasta, *acommon, "--cores", str(cores)]
                jobs.submit(f"fault {kind} pos={pos} cores={cores}", argv,
                            {"fault": kind, "pos": pos, "cores": cores, "ids": ids, "failing": lkey(F),
                             "n_samples": len(ds.samples),
                             "tag": {"prog": "assemble", "fault": kind, "pos": pos, "cores": cores, "n_loci": n}},
                            env=hash_env(r))
    # (iii) one haplotype record with an ALT allele shorter than REF
    m = len(recs0)
    progs = [("call", 1), ("call-exact", 3), ("call-pedigree", 3), ("call", 4)]
    if tier == "thorough":
        progs = [(pg, c) for pg in ("call", "call-exact", "call-pedigree") for c in (1, 2, 3)]
    for j, (prog, cores) in enumerate(progs):
        pos = r.randrange(m) if j else r.randrange(1, m)           # the first one never in front: a prefix is expected
        f = recs0[pos].split("\t")
        alts = [] if f[4] == "." else f[4].split(",")
        if alts:
            k = r.randrange(len(alts))
            alts[k] = alts[k][:-1]
        else:
            alts = [f[3][:-1]]
            if f[9:]:
                pass                                             # genotypes of the record are not read by the programs
        f[4] = ",".join(alts)
        lines = list(recs0)
        lines[pos] = "\t".join(f)
        path = synth.write_text(os.path.join(work, f"fault.malformed{j}.vcf"), "\n".join(raw_hdr + lines) + "\n")
        extra = list(common) if prog != "call-exact" else []
        if prog == "call-pedigree":
            argv = ["mchap", prog, "--bam", *ds.bams, "--ploidy", ped["ploidy"], "--haplotypes", path, *extra,
                    "--sample-parents", ped["ped"], "--gamete-ploidy", ped["gametes"], "--cores", str(cores)]
            n_cols = ped["n_columns"]
        else:
            argv = ds.call_argv(prog, path, *extra, "--cores", str(cores))
            n_cols = len(ds.samples)
        ids = [rid(x) for x in recs0]
        jobs.submit(f"fault malformed {prog} pos={pos} cores={cores}", argv,
                    {"fault": "malformed", "pos": pos, "cores": cores, "ids": ids, "failing": ids[pos], "n_samples": n_cols,
                     "tag": {"prog": prog, "fault": "malformed", "pos": pos, "cores": cores, "n_loci": m}},
                    env=hash_env(r))


def run_subprocesses(chk, drv, results, drv_reqs):
    single_reqs = []
    for label, argv, exp, out, code, err, dt in results:
        tag = exp["tag"]
        hdr, recs = split_out(out)
        order = [rid(x) for x in recs]
        chk.count("subprocess:" + label.split(" ")[0] + (":" + exp["fault"] if "fault" in exp else ""))
        chk.extra.setdefault("subprocess_wall_s", {})[label] = round(dt, 1)
        nontriv = len(exp["ids"]) >= 3 and exp["cores"] >= 2
        chk.case({**tag, "what": "subprocess", "label": label}, nontriv,
                 sample=once(chk, "subprocess", {"request": label, "impl": f"exit {code}, records {order}",
                                                 "model": "see oracles"}))
        last_err = (err.strip().split("\n")[-1] if err.strip() else "")[:400]
        if code == 124:
            if exp.get("fault") == "killed":
                chk.violation(f"{label}: a worker process is killed (SIGKILL) while calling one locus and the program never exits "
                              f"({err.split(chr(10))[0]}; the main process waits for a result that cannot arrive)",
                              {**tag, "argv": argv, "killed_at": exp["failing"], "records_written": order}, SIG_KILL_HANG)
            else:
                chk.violation(f"{label}: no exit within {TIMEOUT} s", {**tag, "argv": argv}, "C08/multicore/hang")
            continue
        for l in recs:
            if not intact(l, exp["n_samples"]):
                chk.violation(f"{label}: a record line is not intact", {**tag, "line": l[:300]}, "C08/cores/intact")
        if "fault" not in exp:
            if code != 0:
                chk.violation(f"{label}: the program fails (exit {code}) although the single-core in-process run succeeds",
                              {**tag, "argv": argv, "exit": code, "stderr": last_err}, "C08/run/status")
                continue
            compare_records(chk, label + " (subprocess)", exp["base"], recs, exp.get("sig", "C08/cores/multiset"), tag, exp["ids"])
            if exp["hdr"] is not None and hdr != exp["hdr"]:
                chk.violation(f"{label}: header differs from the single-core in-process run", tag, "C08/header")
            if exp["cores"] > 1:
                check_order_admissible(chk, drv_reqs, label, exp["ids"], order, exp["cores"], tag)
            elif order != exp["ids"]:
                chk.disagreement("single-core run does not write the records in target order", {**tag, "order": order})
            continue
        # ---- stdout cannot be written / the reader went away: every record is lost, the status must say so
        if exp["fault"] in ("devfull", "closed-pipe"):
            case = {**tag, "exit": code, "records_read_before_closing": order, "stderr": last_err, "argv": argv}
            if code == 0:
                if exp["fault"] == "devfull":
                    chk.violation(f"{label}: stdout is /dev/full (every write fails with ENOSPC) but the exit status is 0",
                                  case, "C08/fault/devfull-exit-zero")
                else:
                    chk.violation(f"{label}: the reader of stdout goes away after the header (every write of the writer process fails "
                                  f"with EPIPE), all {len(exp['ids'])} records are lost, and the exit status is 0",
                                  case, SIG_PIPE_ZERO)
            continue
        # ---- a failing locus
        failing, ids = exp["failing"], exp["ids"]
        case = {**tag, "exit": code, "records": order, "failing": failing, "stderr": last_err[:300]}
        if code == 0:
            chk.violation(f"{label}: a locus fails but the exit status is 0"
                          + ("" if failing in order else " and its record is silently missing"),
                          case, "C08/fault/exit-zero")
        if failing in order:
            chk.violation(f"{label}: a record was written for the failing locus", case, "C08/fault/record-written")
        if len(set(order)) != len(order) or any(x not in ids for x in order):
            chk.violation(f"{label}: repeated / unknown records before the failure", case, "C08/cores/once")
        f = ids.index(failing)
        if exp["cores"] == 1:
            single_reqs.append((f"sched.single {len(ids)} 1 {f}", label, ids, order, code, case))
        elif exp["fault"] in ("listing", "malformed"):
            if order:
                chk.disagreement("records were written although listing the loci fails before any worker starts",
                                 case)
        else:
            # per block: what was written is a prefix of the block, ending before the failing locus
            sizes = [len(b) for b in np.array_split(list(range(len(ids))), exp["cores"])]
            at = 0
            for s in sizes:
                block = ids[at:at + s]
                at += s
                limit = block.index(failing) if failing in block else len(block)
                seen = [x for x in order if x in block]
                if seen != block[:len(seen)] or len(seen) > limit:
                    chk.disagreement("records of a block are not a prefix of the block (model: workers emit in order and stop at the failure)",
                                     {**case, "block": block, "seen": seen})
    if single_reqs:
        ans = drv.ask([q[0] for q in single_reqs])
        for (req, label, ids, order, code, case), a in zip(single_reqs, ans):
            st, _, outs = a.partition("|")
            m_order = [ids[int(x)] for x in outs.split()]
            impl = ("ok" if code == 0 else "err", order)
            if impl != (st.strip(), m_order):
                chk.disagreement("single-core failing run != runSingle of the model",
                                 {**case, "request": req, "model": a, "impl": impl})
    if drv_reqs:
        ans = drv.ask([q[0] for q in drv_reqs])
        for (req, what, case), a in zip(drv_reqs, ans):
            chk.count("order-admissible" if a == "true" else "order-not-admissible")
            if a != "true":
                chk.disagreement(f"{what}: the order of the records is not an interleaving of the array_split blocks",
                                 {**case, "request": req, "model": a})


# --------------------------------------------------------------------------------------

def run(tier, replay=None):
    chk = C.Check(PROP, tier, MODULE, THEOREMS, RULE, exe=EXE, assumptions=[
        "partial: OS scheduling, pipe atomicity, pickling and multiprocessing internals are not modelled; the interleaving "
        "relation over-approximates them and only the real runs of this check observe them",
        "the samplers' random streams are abstract (any deterministic function of the two generator states); that the code "
        "draws from no other source of randomness is observed (bit-identical traces), not proved",
        "non-zero exit relies on the interpreter terminating the pool / manager at exit after job.get() re-raises (observed "
        "by fault injection incl. a timeout for hangs; in the model `raised` is absorbing and a worker never vanishes without "
        "raising: a worker killed from outside and a writer whose stdout breaks are outside the model and only the runs see them)",
        "the tie order of np.argsort, float printing and file parsing are outside this property",
    ])
    chk.prove()
    chk.require("cli:multi-sample-bam", "sample order must not depend on the interpreter's hash seed")
    chk.require("cli:cores-with-remainder", "blocks of unequal size")
    drv = C.Driver(EXE)
    work = tempfile.mkdtemp(prefix="verif-c08-")
    jobs = W.Jobs(workers=14)
    phase = chk.extra.setdefault("phase_wall_s", {})
    try:
        # the command-line part comes first: its real-process runs are started as they are defined and go on in the
        # background while the in-process parts run (each part draws from its own generator)
        t0 = time.time()
        drv_reqs = check_cli(chk, drv, C.rng(PROP + ":cli"), tier, work, jobs)
        phase["cli-in-process"] = round(time.time() - t0, 1)
        r = C.rng(PROP)
        for name, part in (("split", lambda: check_split(chk, drv, r, tier)),
                           ("protocol", lambda: check_protocol(chk, drv, r, tier, tick=jobs.pump)),
                           ("fits", lambda: check_fits(chk, r, tier, tick=jobs.pump))):
            t0 = time.time()
            part()
            phase[name] = round(time.time() - t0, 1)
        t0 = time.time()
        results = jobs.results()
        phase["waiting-for-subprocesses"] = round(time.time() - t0, 1)
        run_subprocesses(chk, drv, results, drv_reqs)
    except BaseException:
        jobs.abort()
        raise
    finally:
        shutil.rmtree(work, ignore_errors=True)
    return chk.finish()
