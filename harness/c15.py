"""C15 — each iteration sweeps every (haplotype, SNV) pair once; intervals partition; fixed sites restored.

Correspondence: the (h, j) arguments `base_step` receives when `compound_step.py_func` runs with
`base_step` replaced by a recorder, for ploidy x n_base up to 300 (vs the model's sub-step table);
the jitted `compound_step` on a forcing read set (every visited site flips with probability ~1, so a
site never visited stays at its initial allele); `random_breaks` with forced draws vs the model;
`_homozygosity_probabilities` vs the model's single-SNV posterior; the template re-insertion of
`DenovoMCMC._mcmc` with `_denovo_assembler` replaced by a marker trace.
"""
from __future__ import annotations

import math

import numpy as np

from . import common as C
from . import gen as G

PROP = "C15"
MODULE = "MCHap.Properties.C15"
THEOREMS = [
    "MCHap.C15.mem_substeps",
    "MCHap.C15.substeps_nodup",
    "MCHap.C15.substeps_length",
    "MCHap.C15.substeps_all_pairs",
    "MCHap.C15.sweep_visits_each_once",
    "MCHap.C15.sweep_no_other_pairs",
    "MCHap.C15.int8_table_counterexample",
    "MCHap.C15.drawPoints_spec",
    "MCHap.C15.breaks_partition",
    "MCHap.C15.fixed_iff",
    "MCHap.C15.reinsert_spec",
]
RULE = ("cases: (ploidy, n_base) grids incl. n_base in {127,128,129,200,256,300} for the sweep (recorder and jitted forcing read set); "
        "(breaks, n) with forced draw sequences and jitted random draws for random_breaks; random read sets x thresholds for the "
        "homozygosity screen; random fixing patterns for re-insertion. Non-trivial: n_base > 127 or ploidy*n_base >= 8 (sweep); "
        "breaks >= 2 (intervals); a site both fixed and non-fixed present (re-insertion). Distinct by request line.")


def run(tier, replay=None):
    from mchap.assemble import mutation, structural
    from mchap.assemble import mcmc as amcmc
    from mchap.assemble.mcmc import DenovoMCMC, _homozygosity_probabilities

    chk = C.Check(PROP, tier, MODULE, THEOREMS, RULE, assumptions=[
        "np.random.shuffle produces a permutation of the rows (numpy is trusted)",
        "thresholds within 1e-9 of a homozygosity probability are excluded from comparison (float comparison is runtime behaviour)",
    ])
    chk.prove()
    drv = C.Driver()
    r = C.rng(PROP)

    # ------------------------------------------------------------------ sweep: recorder under py_func
    shapes = [(1, 1), (2, 3), (4, 5), (3, 40), (2, 127), (2, 128), (2, 129), (1, 200), (2, 200), (4, 130), (6, 64)]
    if tier == "thorough":
        shapes += [(2, 256), (2, 300), (1, 257), (8, 150), (130, 2), (200, 1), (3, 128)]
    if tier == "warm":
        shapes = [(2, 3), (2, 130)]
    ans = drv.ask([f"sweep.table {p} {n}" for p, n in shapes])
    visited = []

    def recorder(genotype, reads, llk, h, j, n_alleles, log_unique_haplotypes, inbreeding=0, temp=1, read_counts=None, cache=None):
        visited.append((int(h), int(j)))
        return llk, cache

    orig = mutation.base_step
    mutation.base_step = recorder
    try:
        for (ploidy, nb), a in zip(shapes, ans):
            visited.clear()
            g = np.zeros((ploidy, nb), dtype=np.int8)
            reads = np.full((1, nb, 2), np.nan)
            np.random.seed(r.randrange(2 ** 31))
            mutation.compound_step.py_func(g, reads, 0.0, np.full(nb, 2, dtype=np.int8), math.log(2) * nb)
            model = sorted(tuple(int(x) for x in t.split(":")) for t in a.split())
            impl = sorted(visited)
            chk.count("sweep:recorder")
            chk.case(f"sweep.table {ploidy} {nb}", nb > 127 or ploidy * nb >= 8,
                     sample={"request": f"sweep.table {ploidy} {nb}", "impl_first": visited[:5], "model_first": model[:5]})
            case = {"ploidy": ploidy, "n_base": nb}
            if impl != model:
                chk.disagreement("pairs visited by compound_step != model sub-step table", case)
            want = sorted((h, j) for h in range(ploidy) for j in range(nb))
            if impl != want:
                from collections import Counter
                cnt = Counter((h % ploidy if h >= 0 else h + ploidy, j if j >= 0 else j + nb) for h, j in visited)
                missing = [p for p in want if cnt.get(p, 0) == 0][:5]
                twice = [p for p in want if cnt.get(p, 0) > 1][:5]
                chk.violation("an iteration does not attempt a mutation at every (haplotype, SNV) pair exactly once",
                              {**case, "never_visited": missing, "visited_more_than_once": twice, "n_visits": len(visited)},
                              "C15/compound_step/pairs")
    finally:
        mutation.base_step = orig

    # ------------------------------------------------------------------ sweep: jitted, forcing read set
    jit_shapes = [(1, 5), (1, 140), (2, 200)] if tier != "warm" else [(1, 5)]
    if tier == "thorough":
        jit_shapes += [(1, 300), (2, 129), (3, 260)]
    from mchap.assemble.likelihood import log_likelihood
    for ploidy, nb in jit_shapes:
        reads = np.zeros((1, nb, 2)); reads[0, :, 0] = 0.2; reads[0, :, 1] = 0.8
        counts = np.array([50], dtype=np.int64)
        g = np.zeros((ploidy, nb), dtype=np.int8)
        mutation.seed = None
        np.random.seed(7); from mchap.jitutils import seed_numba; seed_numba(r.randrange(2 ** 31))
        llk = log_likelihood(reads, g, read_counts=counts)
        mutation.compound_step(g, reads, llk, np.full(nb, 2, dtype=np.int8), math.log(2) * nb, 0.0, 1.0, counts, None)
        # a haploid/first-visited slot flips to 1 with probability ~1; a site where no haplotype carries 1 was never attempted
        untouched = [j for j in range(nb) if not g[:, j].any()]
        chk.count("sweep:jitted-forcing")
        chk.case(("jit-sweep", ploidy, nb), nb > 127)
        if untouched:
            chk.violation("jitted compound_step leaves SNVs untouched although every attempted mutation is accepted with probability ~1",
                          {"ploidy": ploidy, "n_base": nb, "untouched_sites": untouched[:10], "n_untouched": len(untouched)},
                          "C15/compound_step/pairs")

    # ------------------------------------------------------------------ random_breaks
    n_rb = {"warm": 5, "quick": 300, "thorough": 3000}[tier]
    lines, meta = [], []
    for _ in range(n_rb):
        n = r.choice([1, 2, 3, 4, 5, 8, 13, 40, 200])
        breaks = r.randint(0, n - 1) if r.random() < 0.9 else n + r.randint(0, 2)
        choices = [r.randrange(max(1, (n - 1) - k)) for k in range(breaks)] if breaks < n else [0] * breaks
        lines.append("sweep.breaks " + " ".join(map(str, [n] + choices)))
        meta.append((n, breaks, choices))
    ans = drv.ask(lines)
    orig_choice = np.random.choice
    for (n, breaks, choices), a, line in zip(meta, ans, lines):
        seq = list(choices)

        def forced(options, *args, **kw):
            return options[seq.pop(0)]

        np.random.choice = forced
        try:
            try:
                iv = structural.random_breaks.py_func(breaks, n)
                impl = " ".join(f"{int(x)}:{int(y)}" for x, y in iv)
            except ValueError:
                impl = "error:ValueError"
                iv = None
        finally:
            np.random.choice = orig_choice
        chk.count("random_breaks:forced")
        chk.case(line, breaks >= 2 and breaks < n, sample={"request": line, "impl": impl, "model": a})
        if impl != a:
            chk.disagreement("random_breaks impl != model", {"n": n, "breaks": breaks, "choices": choices, "impl": impl, "model": a})
        if iv is not None:
            ok = (len(iv) == breaks + 1 and iv[0][0] == 0 and iv[-1][1] == n and all(x < y for x, y in iv)
                  and all(iv[i][1] == iv[i + 1][0] for i in range(len(iv) - 1)))
            if not ok:
                chk.violation("random_breaks intervals do not partition the SNV range into breaks+1 contiguous non-empty intervals",
                              {"n": n, "breaks": breaks, "choices": choices, "intervals": [list(map(int, x)) for x in iv]}, "C15/random_breaks/partition")
    # jitted with real random draws
    from mchap.jitutils import seed_numba
    seed_numba(r.randrange(2 ** 31))
    for _ in range(n_rb):
        n = r.choice([1, 2, 3, 5, 8, 13, 40, 150, 300])
        breaks = r.randint(0, n - 1)
        iv = structural.random_breaks(breaks, n)
        chk.count("random_breaks:jitted")
        chk.case(("rb-jit", n, breaks, tuple(map(tuple, iv.tolist()))), breaks >= 2)
        ok = (len(iv) == breaks + 1 and iv[0][0] == 0 and iv[-1][1] == n and all(x < y for x, y in iv)
              and all(iv[i][1] == iv[i + 1][0] for i in range(len(iv) - 1)))
        if not ok:
            chk.violation("random_breaks intervals do not partition the SNV range into breaks+1 contiguous non-empty intervals",
                          {"n": n, "breaks": breaks, "intervals": iv.tolist()}, "C15/random_breaks/partition")

    # ------------------------------------------------------------------ homozygosity screen
    n_h = {"warm": 2, "quick": 60, "thorough": 600}[tier]
    lines, meta = [], []
    for _ in range(n_h):
        ploidy = r.choice([1, 2, 4, 6]); nb = r.randint(1, 5)
        n_alleles = G.gen_n_alleles(r, nb)
        truth = G.gen_genotype(r, ploidy, n_alleles, dup=0.8)
        reads, counts = G.gen_reads(r, n_alleles, r.randint(0, 12), haps=truth, gap=r.choice([0.0, 0.3]), style="encoded")
        F = r.choice([0.0, 0.1, 0.5])
        if len(counts) == 0:
            reads = np.full((1, nb, max(n_alleles)), np.nan); counts = np.array([1], dtype=np.int64)
        lines.append(" ".join(["sweep.hom"] + G.reads_tokens(reads, counts) + [str(ploidy), C.rat_str(F)] + [str(a) for a in n_alleles]))
        meta.append((ploidy, n_alleles, reads, counts, F))
    ans = drv.ask(lines)
    fix_lines, fix_meta = [], []
    for (ploidy, n_alleles, reads, counts, F), a, line in zip(meta, ans, lines):
        hp = _homozygosity_probabilities(reads, np.array(n_alleles, dtype=np.int8), ploidy, inbreeding=F, read_counts=counts)
        model = [[float(C.parse_rat(x)) for x in site.split()] for site in a.split(";")]
        chk.count("homozygosity")
        chk.case(line, True, sample=None)
        bad = False
        for j, na in enumerate(n_alleles):
            for al in range(na):
                if not C.close(float(hp[j, al]), model[j][al], rel=1e-8, abs_=1e-12):
                    bad = True
        if bad:
            chk.disagreement("_homozygosity_probabilities != model homProbs", {"ploidy": ploidy, "n_alleles": n_alleles, "inbreeding": F,
                                                                               "impl": hp.tolist(), "model": model})
        # thresholds: exact values, just above / below
        for j, na in enumerate(n_alleles):
            probs = [float(hp[j, al]) for al in range(na)]
            for thr in {0.999, 0.5, max(probs), max(probs) + 1e-6, max(probs) - 1e-6}:
                if thr <= 0 or any(0 < abs(p - thr) < 1e-9 for p in probs):
                    continue
                fix_lines.append("sweep.fix " + C.rat_str(thr) + " " + " ".join(C.rat_str(p) for p in probs))
                fix_meta.append((probs, thr))
    ans = drv.ask(fix_lines)
    for (probs, thr), a in zip(fix_meta, ans):
        fixed = np.array(probs) >= thr
        impl = "none"
        if fixed.any():
            impl = str(int(np.where(fixed)[0][-1]))
        chk.count("fix-threshold")
        if impl != a:
            chk.disagreement("fixed allele (hom_probs >= threshold, last wins) != model fixedAllele", {"probs": probs, "thr": thr, "impl": impl, "model": a})

    # ------------------------------------------------------------------ DenovoMCMC: fixing + re-insertion with a marker trace
    n_f = {"warm": 2, "quick": 40, "thorough": 400}[tier]
    orig_asm = amcmc._denovo_assembler
    for it in range(n_f):
        ploidy = r.choice([2, 4]); nb = r.randint(2, 7)
        n_alleles = [r.choice([2, 3]) for _ in range(nb)]
        # haplotypes: some sites homozygous (strong reads) and some heterozygous
        hom_sites = [r.random() < 0.5 for _ in range(nb)]
        truth = []
        base = [r.randrange(a) for a in n_alleles]
        for h in range(ploidy):
            truth.append([base[j] if hom_sites[j] else r.randrange(n_alleles[j]) for j in range(nb)])
        reads, counts = G.gen_reads(r, n_alleles, r.randint(4, 14), haps=truth, gap=0.1, style="encoded", max_count=4)
        thr = r.choice([0.999, 0.9, 0.6])
        steps = 5
        captured = {}

        def fake_assembler(**kw):
            g = kw["genotype"]
            p_, nhet = g.shape
            captured["n_het"] = nhet
            captured["n_alleles"] = np.array(kw["n_alleles"]).tolist()
            trace = np.zeros((1, steps, p_, nhet), dtype=np.int8)
            for s in range(steps):
                for h in range(p_):
                    for k in range(nhet):
                        trace[0, s, h, k] = (s + h + k) % max(1, int(kw["n_alleles"][k]))
            return trace, np.zeros((1, steps))

        amcmc._denovo_assembler = fake_assembler
        try:
            model = DenovoMCMC(ploidy=ploidy, n_alleles=n_alleles, steps=steps, chains=1, fix_homozygous=thr, random_seed=3)
            tr = model.fit(reads, read_counts=counts)
        finally:
            amcmc._denovo_assembler = orig_asm
        gt = tr.genotypes[0]  # (steps, ploidy, nb)  -- note GenotypeMultiTrace sorts haplotypes within each step
        hp = _homozygosity_probabilities(reads, np.array(n_alleles, dtype=np.int8), ploidy, inbreeding=0, read_counts=counts)
        margin = np.min(np.abs(hp[hp > 0] - thr)) if (hp > 0).any() else 1.0
        if margin < 1e-9:
            chk.count("skipped:threshold-margin")
            continue
        fixed = [None] * nb
        for j in range(nb):
            for al in range(n_alleles[j]):
                if hp[j, al] >= thr:
                    fixed[j] = al
        het_cols = [j for j in range(nb) if fixed[j] is None]
        chk.count("fit:reinsert")
        chk.case(("reinsert", it, tuple(fixed)), any(f is not None for f in fixed) and len(het_cols) > 0)
        case = {"ploidy": ploidy, "n_alleles": n_alleles, "threshold": thr, "fixed": fixed, "hom_probs": hp.tolist()}
        if het_cols and captured.get("n_het") != len(het_cols):
            chk.violation("the set of SNVs held fixed is not {sites whose homozygosity probability reaches the threshold}",
                          {**case, "sampled_sites": captured.get("n_het"), "expected": len(het_cols)}, "C15/fix/iff")
            continue
        # expected trace: marker values at heterozygous columns, fixed allele elsewhere (rows compared as multisets per step)
        ok = True
        for s in range(steps):
            exp_rows = []
            for h in range(ploidy):
                row = []
                for j in range(nb):
                    if fixed[j] is not None:
                        row.append(fixed[j])
                    else:
                        k = het_cols.index(j)
                        row.append((s + h + k) % n_alleles[j])
                exp_rows.append(tuple(row))
            got = sorted(tuple(int(x) for x in row) for row in gt[s])
            if got != sorted(exp_rows):
                ok = False
                chk.violation("fixed SNVs do not reappear in the trace in the correct column with the correct allele",
                              {**case, "step": s, "trace": [list(x) for x in got], "expected": [list(x) for x in sorted(exp_rows)]},
                              "C15/fix/reinsert")
                break
        # model correspondence of the re-insertion
        if ok and het_cols:
            pat = ["x" if f is None else str(f) for f in fixed]
            hetg = [[(0 + h + k) % n_alleles[het_cols[k]] for k in range(len(het_cols))] for h in range(ploidy)]
            line = " ".join(["sweep.reinsert", str(nb)] + pat + [str(ploidy)] + [str(a) for row in hetg for a in row])
            m = drv.ask1(line)
            got0 = sorted(tuple(int(x) for x in row) for row in gt[0])
            mod0 = sorted(tuple(int(x) for x in row.split()) for row in m.split("|"))
            if got0 != mod0:
                chk.disagreement("template re-insertion impl != model reinsert", {**case, "impl": got0, "model": mod0})
    return chk.finish()
