"""C15 — each iteration sweeps every (haplotype, SNV) pair once; intervals partition; fixed sites restored.

Correspondence: the (h, j) arguments `base_step` receives when `compound_step.py_func` runs with
`base_step` replaced by a recorder, for ploidy x n_base up to 300 (vs the model's sub-step table);
the jitted `compound_step` on a forcing read set (every visited site flips with probability ~1, so a
site never visited stays at its initial allele); `random_breaks` with forced draws vs the model;
`_homozygosity_probabilities` vs the model's single-SNV posterior; the template re-insertion of
`DenovoMCMC._mcmc` with `_denovo_assembler` replaced by a marker trace.
"""
from __future__ import annotations

import math

import numpy as np

from . import common as C
from . import gen as G

PROP = "C15"
MODULE = "MCHap.Properties.C15"
THEOREMS = [
    "MCHap.C15.mem_substeps",
    "MCHap.C15.substeps_nodup",
    "MCHap.C15.substeps_length",
    "MCHap.C15.substeps_all_pairs",
    "MCHap.C15.sweep_visits_each_once",
    "MCHap.C15.sweep_no_other_pairs",
    "MCHap.C15.int8_table_counterexample",
    "MCHap.C15.drawPoints_spec",
    "MCHap.C15.breaks_partition",
    "MCHap.C15.fixed_iff",
    "MCHap.C15.reinsert_spec",
    "MCHap.C15.restrict_reinsert",
    "MCHap.C15.reinsertHap_injective",
    "MCHap.C15.reinsert_count",
    "MCHap.C15.restrict_length",
    "MCHap.C15.reinsert_restrict_iff",
    "MCHap.C15.restrict_reinsert_genotype",
    "MCHap.C15.reinsert_perm",
    "MCHap.C15.reinsert_shape",
    "MCHap.C15.reinsert_fixed_sites",
]
RULE = ("cases: (ploidy, n_base) grids incl. n_base in {127,128,129,200,256,300} for the sweep (recorder and jitted forcing read set); "
        "(breaks, n) with forced draw sequences and jitted random draws for random_breaks; random read sets x thresholds for the "
        "homozygosity screen; random fixing patterns for re-insertion (thresholds 0..1, inbreeding 0 / 0.1 / 0.5, 1..3 chains, read_counts=None, "
        "no reads, loci of 130..300 SNVs); whole iterations of DenovoMCMC.fit with recorders on base_step / random_breaks / interval_step; "
        "`mchap assemble --mcmc-fix-homozygous X`. Non-trivial: n_base > 127 or ploidy*n_base >= 8 (sweep); "
        "breaks >= 2 (intervals); a site both fixed and non-fixed present (re-insertion). Distinct by request line.")


def iteration_part(chk, r, tier):
    """Whole iterations of the real sampler observed through `DenovoMCMC.fit`: `_denovo_assembler` and the two sweep drivers run as
    plain Python (`.py_func`) so that recorders on `mutation.base_step`, `structural.random_breaks` and `structural.interval_step`
    see every elementary attempt (the moves themselves are the real jitted ones).  Per (step, temperature): the mutation sweep attempts
    every (haplotype, non-fixed SNV) pair exactly once with that SNV's allele number; every interval set comes from `random_breaks`
    called with n = the number of NON-fixed SNVs, partitions range(n), and every interval is attempted exactly once; the trace equals the
    sampler's states with the fixed SNVs re-inserted."""
    from mchap.assemble import mutation, structural, mcmc as amcmc
    from mchap.assemble.mcmc import DenovoMCMC, _homozygosity_probabilities

    n_it = {"warm": 1, "quick": 8, "thorough": 60}[tier]
    o_asm, o_mc, o_sc = amcmc._denovo_assembler, mutation.compound_step, structural.compound_step
    o_bs, o_is, o_rb = mutation.base_step, structural.interval_step, structural.random_breaks
    for it in range(n_it):
        big = tier == "thorough" and it % 10 == 9
        ploidy = r.choice([2, 3, 4]); nb = r.randint(3, 9) if not big else r.randint(130, 150)
        n_alleles = [r.choice([2, 2, 3, 4]) for _ in range(nb)]
        hom_sites = [r.random() < 0.5 for _ in range(nb)]
        base = [r.randrange(a) for a in n_alleles]
        truth = [[base[j] if hom_sites[j] else r.randrange(n_alleles[j]) for j in range(nb)] for _ in range(ploidy)]
        reads, counts = G.gen_reads(r, n_alleles, r.randint(5, 14), haps=truth, gap=0.1, style="encoded", max_count=4)
        thr = r.choice([0.999, 0.9, 0.6]); F = r.choice([0, 0.1, 0.5])
        temps = r.choice([(1.0,), (0.3, 1.0), (0.2, 0.5, 1.0)])
        steps = 3 if not big else 2; n_chains = r.choice([1, 2])
        ev = []

        def asm(**kw):
            ev.append(("asm", {"n_het": int(kw["genotype"].shape[1]), "n_alleles": [int(a) for a in kw["n_alleles"]],
                               "temps": [float(t) for t in kw["temperatures"]], "steps": int(kw["steps"])}))
            # (plain numpy evaluates log(int8 array) in float16; the jitted code uses float64: hand the interpreter an int64 copy)
            kw = {**kw, "n_alleles": np.asarray(kw["n_alleles"], dtype=np.int64)}
            out = o_asm.py_func(**kw)
            ev.append(("asm-end", np.array(out[0]).copy()))
            return out

        def mc(genotype, reads, llk, n_alleles, log_unique_haplotypes, inbreeding=0, temp=1, read_counts=None, cache=None):
            ev.append(("mut", float(temp), tuple(genotype.shape)))
            return o_mc.py_func(genotype, reads, llk, n_alleles, log_unique_haplotypes, inbreeding=inbreeding, temp=temp, read_counts=read_counts,
                                cache=cache)

        def bs(genotype, reads, llk, h, j, n_alleles, log_unique_haplotypes, inbreeding=0, temp=1, read_counts=None, cache=None):
            ev.append(("base", int(h), int(j), int(n_alleles)))
            return o_bs(genotype, reads, llk, h, j, n_alleles, log_unique_haplotypes, inbreeding, temp, read_counts, cache)

        def rb(breaks, n):
            iv = o_rb(breaks, n)
            ev.append(("rb", int(breaks), int(n), np.array(iv).tolist()))
            return iv

        def sc(genotype, reads, llk, intervals, log_unique_haplotypes, inbreeding=0, step_type=0, randomize=True, temp=1, read_counts=None,
               cache=None):
            ev.append(("str", int(step_type), float(temp), np.array(intervals).tolist()))
            return o_sc.py_func(genotype, reads, llk, intervals, log_unique_haplotypes, inbreeding=inbreeding, step_type=step_type,
                                randomize=randomize, temp=temp, read_counts=read_counts, cache=cache)

        def ist(genotype, reads, llk, log_unique_haplotypes, inbreeding=0, interval=None, step_type=0, temp=1, read_counts=None, cache=None):
            ev.append(("int", [int(interval[0]), int(interval[1])], int(step_type)))
            return o_is(genotype, reads, llk, log_unique_haplotypes, inbreeding, interval, step_type, temp, read_counts, cache)

        amcmc._denovo_assembler, mutation.compound_step, structural.compound_step = asm, mc, sc
        mutation.base_step, structural.interval_step, structural.random_breaks = bs, ist, rb
        try:
            tr = DenovoMCMC(ploidy=ploidy, n_alleles=n_alleles, steps=steps, chains=n_chains, fix_homozygous=thr, temperatures=temps,
                            random_seed=r.randrange(1, 2 ** 31), inbreeding=F, llk_cache_threshold=r.choice([-1, 0, 100])).fit(reads, read_counts=counts)
        finally:
            amcmc._denovo_assembler, mutation.compound_step, structural.compound_step = o_asm, o_mc, o_sc
            mutation.base_step, structural.interval_step, structural.random_breaks = o_bs, o_is, o_rb
        hp = _homozygosity_probabilities(reads, np.array(n_alleles, dtype=np.int8), ploidy, inbreeding=F, read_counts=counts)
        real = np.array([[al < n_alleles[j] for al in range(hp.shape[1])] for j in range(nb)])
        if (np.abs(hp[real] - thr) < 1e-9).any():
            chk.count("iteration:skipped-threshold-margin")
            continue
        fixed = [None] * nb
        for j in range(nb):
            for al in range(n_alleles[j]):
                if hp[j, al] >= thr:
                    fixed[j] = al
        het = [j for j in range(nb) if fixed[j] is None]
        n_het = len(het)
        chk.count("iteration:fit"); chk.count(f"iteration:temperatures={len(temps)}")
        chk.count("iteration:some-fixed-some-not" if 0 < n_het < nb else "iteration:none-fixed" if n_het == nb else "iteration:all-fixed")
        chk.case(("iteration", it, ploidy, tuple(n_alleles) if nb < 20 else nb, thr, F, temps, n_chains), 0 < n_het < nb)
        case = {"ploidy": ploidy, "n_alleles": n_alleles if nb < 20 else f"{nb} sites", "threshold": thr, "inbreeding": F, "temperatures": list(temps),
                "steps": steps, "chains": n_chains, "fixed": fixed if nb < 20 else f"{nb - n_het} of {nb}"}
        # split the event log into assembler runs (one per chain)
        runs, cur = [], None
        for e in ev:
            if e[0] == "asm":
                cur = {"info": e[1], "events": [], "trace": None}
                runs.append(cur)
            elif e[0] == "asm-end":
                cur["trace"] = e[1]
            elif cur is not None:
                cur["events"].append(e)
        if n_het == 0:
            if runs:
                chk.violation("the sampler is run although every SNV reaches the fixing threshold", case, "C15/fix/iff")
            continue
        if len(runs) != n_chains:
            chk.violation("the assembler is not run once per chain", {**case, "runs": len(runs)}, "C15/iteration/chains")
            continue
        bad = None
        for c_, run_ in enumerate(runs):
            info, events = run_["info"], run_["events"]
            if info["n_het"] != n_het or info["n_alleles"] != [n_alleles[j] for j in het]:
                bad = ("C15/fix/iff", "the sampler is not given exactly the SNVs whose homozygosity probability stays below the threshold (with their "
                       "allele numbers)", {"given_sites": info["n_het"], "given_alleles": info["n_alleles"][:12], "expected_sites": n_het})
                break
            want_pairs = [(h, j) for h in range(ploidy) for j in range(n_het)]
            sweeps = []            # one entry per mutation sweep: (temp, [(h, j, na)...], [structural events...])
            for e in events:
                if e[0] == "mut":
                    sweeps.append({"temp": e[1], "base": [], "rest": []})
                elif not sweeps:
                    bad = ("C15/iteration/order", "an elementary move is attempted before the first mutation sweep of the iteration", {"event": str(e)[:200]})
                    break
                elif e[0] == "base":
                    if sweeps[-1]["rest"]:
                        bad = ("C15/iteration/order", "a mutation attempt happens outside the mutation sweep", {"event": str(e)[:200]})
                        break
                    sweeps[-1]["base"].append(e[1:])
                else:
                    sweeps[-1]["rest"].append(e)
            if bad:
                break
            want_temps = [float(t) for _ in range(steps) for t in sorted(temps)]
            if [sw["temp"] for sw in sweeps] != want_temps:
                bad = ("C15/iteration/sweeps", "there is not exactly one mutation sweep per (step, temperature), hottest chain first",
                       {"observed_temperatures": [sw["temp"] for sw in sweeps][:12], "expected": want_temps[:12]})
                break
            for k, sw in enumerate(sweeps):
                pairs = sorted((h, j) for h, j, _ in sw["base"])
                if pairs != want_pairs:
                    from collections import Counter
                    cnt = Counter(pairs)
                    bad = ("C15/compound_step/pairs", "an iteration does not attempt a mutation at every (haplotype, non-fixed SNV) pair exactly once",
                           {"sweep": k, "temperature": sw["temp"], "n_attempts": len(pairs), "expected_attempts": len(want_pairs),
                            "never_visited": [p_ for p_ in want_pairs if cnt.get(p_, 0) == 0][:5],
                            "visited_more_than_once": [p_ for p_ in want_pairs if cnt.get(p_, 0) > 1][:5]})
                    break
                wrong = [(h, j, na) for h, j, na in sw["base"] if na != n_alleles[het[j]]]
                if wrong:
                    bad = ("C15/compound_step/site-alleles", "a mutation attempt is handed an allele number that is not that of its SNV",
                           {"sweep": k, "attempt": list(wrong[0]), "alleles_of_that_site": n_alleles[het[wrong[0][1]]]})
                    break
                # structural part of this (step, temperature)
                pending_rb, cur_str, todo = None, None, []
                n_full = 0
                for e in sw["rest"] + [("end",)]:
                    if e[0] in ("rb", "str", "end") and cur_str is not None:
                        if todo:
                            bad = ("C15/iteration/intervals", "an interval of the set handed to a structural sweep is never attempted",
                                   {"sweep": k, "intervals": cur_str[3], "not_attempted": todo[:5]})
                            break
                        cur_str = None
                    if e[0] == "rb":
                        _, breaks, n_, iv = e
                        ok = (n_ == n_het and 0 <= breaks < n_ and len(iv) == breaks + 1 and iv[0][0] == 0 and iv[-1][1] == n_het
                              and all(a < b for a, b in iv) and all(iv[i][1] == iv[i + 1][0] for i in range(len(iv) - 1)))
                        if not ok:
                            bad = ("C15/random_breaks/partition", "random_breaks is not called with the number of non-fixed SNVs, or its intervals do not "
                                   "partition that range into breaks+1 contiguous non-empty intervals",
                                   {"sweep": k, "breaks": breaks, "n": n_, "non_fixed_snvs": n_het, "intervals": iv[:12]})
                            break
                        pending_rb = iv
                    elif e[0] == "str":
                        iv = e[3]
                        full = iv == [[0, n_het]]
                        if pending_rb is not None:
                            if iv != pending_rb:
                                bad = ("C15/iteration/intervals", "the structural sweep does not use the interval set that was just drawn",
                                       {"sweep": k, "drawn": pending_rb[:12], "used": iv[:12]})
                                break
                            pending_rb = None
                        elif not (full and e[1] == 1):
                            bad = ("C15/iteration/intervals", "a structural sweep uses an interval set that did not come from random_breaks "
                                   "(and is not the full-length dosage move)", {"sweep": k, "used": iv[:12], "step_type": e[1]})
                            break
                        if full and e[1] == 1:
                            n_full += 1
                        if e[2] != sw["temp"]:
                            bad = ("C15/iteration/sweeps", "a structural sweep runs at another temperature than the mutation sweep of its chain",
                                   {"sweep": k, "temperature": e[2], "chain_temperature": sw["temp"]})
                            break
                        cur_str, todo = e, [list(x) for x in iv]
                    elif e[0] == "int":
                        if cur_str is None or e[1] not in todo or e[2] != cur_str[1]:
                            bad = ("C15/iteration/intervals", "an interval move is attempted on an interval that is not (or no longer) in the current set, "
                                   "or with another move type", {"sweep": k, "interval": e[1], "step_type": e[2]})
                            break
                        todo.remove(e[1])
                if bad:
                    break
                if n_full < 1:
                    bad = ("C15/iteration/sweeps", "no full-length dosage sweep in a (step, temperature) although its probability is 1",
                           {"sweep": k, "temperature": sw["temp"]})
                    break
            if bad:
                break
            chk.count("iteration:mutation-sweeps", len(sweeps)); chk.count("iteration:random_breaks-calls", sum(1 for e in events if e[0] == "rb"))
            # the trace of this chain: the sampler's cold states at the non-fixed columns, the fixed allele elsewhere
            cold = run_["trace"][0]                      # (steps, ploidy, n_het)
            for s_ in range(steps):
                exp_rows = []
                for h in range(ploidy):
                    row = [fixed[j] if fixed[j] is not None else int(cold[s_, h, het.index(j)]) for j in range(nb)]
                    exp_rows.append(tuple(row))
                got = sorted(tuple(int(x) for x in row) for row in tr.genotypes[c_, s_])
                if got != sorted(exp_rows):
                    bad = ("C15/fix/reinsert", "fixed SNVs do not reappear in the trace in the correct column with the correct allele "
                           "(trace != sampler states with the fixed SNVs re-inserted)",
                           {"chain": c_, "step": s_, "first_wrong_column": next((j for j in range(nb) if sorted(x[j] for x in got) != sorted(x[j] for x in exp_rows)), None)})
                    break
            if bad:
                break
        if bad:
            chk.violation(bad[1], {**case, **bad[2]}, bad[0])


def cli_part(chk, r, tier):
    """`mchap assemble --mcmc-fix-homozygous X` (and the option omitted): what DenovoMCMC receives, how many SNVs the sampler is
    given, and the columns of every trace of the program, against the single-SNV homozygosity posterior at the threshold of the
    command line"""
    import os
    import shutil
    import tempfile
    from . import synth as S
    import mchap.application.assemble as A
    from mchap.assemble import mcmc as amcmc
    from mchap.assemble.mcmc import _homozygosity_probabilities

    work = tempfile.mkdtemp(prefix="verif-c15-")
    orig_cls, orig_asm = A.DenovoMCMC, amcmc._denovo_assembler
    try:
        n_ds = {"warm": 1, "quick": 2, "thorough": 8}[tier]
        for d in range(n_ds):
            ds = S.make_dataset(r, os.path.join(work, f"ds{d}"), n_samples=r.choice([2, 3]), n_loci=3, ploidies=r.choice([(2, 4), (4, 2, 2)]),
                                max_snvs=4, depth=(3, 9) if d % 2 else (10, 25), features={"nodepth"} if d % 2 else frozenset())
            options = [None, r.choice(["0.6", "0.8"])] if d % 2 == 0 else [r.choice(["1.0", "0.5"]), r.choice(["0.7", "0.9"])]
            for opt in options:
                fits, sampled = [], []

                class Rec(orig_cls):
                    def fit(self, reads, read_counts=None, initial=None, _fits=fits, _sampled=sampled):
                        k = len(_sampled)
                        tr = super().fit(reads, read_counts=read_counts, initial=initial)
                        _fits.append((self, reads, read_counts, tr, list(_sampled[k:])))
                        return tr

                def asm(_sampled=sampled, **kw):
                    _sampled.append(int(kw["genotype"].shape[1]))
                    return orig_asm(**kw)
                A.DenovoMCMC = Rec
                amcmc._denovo_assembler = asm
                try:
                    extra = [] if opt is None else ["--mcmc-fix-homozygous", opt]
                    out, code, err = S.run_program(ds.assemble_argv("--mcmc-steps", "60", "--mcmc-burn", "20", "--mcmc-chains", "2",
                                                                    "--mcmc-seed", str(r.randrange(1, 10 ** 6)), *extra))
                finally:
                    A.DenovoMCMC = orig_cls
                    amcmc._denovo_assembler = orig_asm
                T = 0.999 if opt is None else float(opt)            # the documented default
                chk.count("cli:assemble-runs"); chk.count("cli:--mcmc-fix-homozygous=" + ("default" if opt is None else opt))
                rcase = {"dataset": d, "option": opt}
                if code != 0:
                    chk.violation("mchap assemble aborted on a synthetic data set", {**rcase, "error": err[:500]}, "C15/cli/abort")
                    continue
                chk.case(("cli", d, opt, len(fits)), len(fits) > 0)
                n_between = 0
                for (m, reads, counts, tr, n_sampled) in fits:
                    n_alleles = [int(a) for a in m.n_alleles]
                    nb = len(n_alleles)
                    case = {**rcase, "ploidy": int(m.ploidy), "n_alleles": n_alleles, "inbreeding": float(m.inbreeding)}
                    if float(m.fix_homozygous) != T:
                        chk.violation("--mcmc-fix-homozygous (default 0.999) is not the threshold DenovoMCMC receives",
                                      {**case, "received": float(m.fix_homozygous), "command_line": T}, "C15/cli/fix-homozygous-forwarded")
                    if nb == 0:
                        continue
                    rd = reads if reads.shape[0] > 0 else np.full((1, nb, reads.shape[2]), np.nan)
                    ct = counts if reads.shape[0] > 0 else None
                    if reads.shape[0] == 0:
                        chk.count("cli:fit-without-reads")
                    hp = _homozygosity_probabilities(rd, np.array(n_alleles, dtype=np.int8), int(m.ploidy), inbreeding=m.inbreeding, read_counts=ct)
                    real = np.array([[al < n_alleles[j] for al in range(hp.shape[1])] for j in range(nb)])
                    if (np.abs(hp[real] - T) < 1e-9).any():
                        chk.count("cli:skipped-threshold-margin")
                        continue
                    fixed = [None] * nb
                    for j in range(nb):
                        for al in range(n_alleles[j]):
                            if hp[j, al] >= T:
                                fixed[j] = al
                    n_between += sum(1 for j in range(nb) if 0.5 <= hp[j, :n_alleles[j]].max() < 0.999)
                    n_het = sum(1 for f in fixed if f is None)
                    chk.count("cli:fit"); chk.count("cli:fit-some-fixed-some-not" if 0 < n_het < nb else "cli:fit-all-fixed" if n_het == 0 else "cli:fit-none-fixed")
                    case = {**case, "threshold": T, "hom_probs": hp.tolist(), "expected_fixed": fixed}
                    want_sampled = [n_het] * int(m.chains) if n_het > 0 else []
                    if n_sampled != want_sampled:
                        chk.violation("the number of SNVs the sampler is given is not the number of SNVs whose homozygosity probability stays below "
                                      "--mcmc-fix-homozygous", {**case, "sampled_sites_per_chain": n_sampled, "expected": want_sampled}, "C15/cli/fix-iff")
                        continue
                    g = tr.genotypes            # (chains, steps, ploidy, nb)
                    for j in range(nb):
                        if fixed[j] is not None and not (g[..., j] == fixed[j]).all():
                            chk.violation("a SNV whose homozygosity probability reaches --mcmc-fix-homozygous is not constant at that allele in the trace",
                                          {**case, "site": j, "alleles_in_trace": sorted(set(int(x) for x in g[..., j].ravel()))}, "C15/cli/fix-reinsert")
                            break
                chk.count("cli:sites-with-hom-prob-in-[0.5,0.999)", n_between)
    finally:
        A.DenovoMCMC = orig_cls
        amcmc._denovo_assembler = orig_asm
        shutil.rmtree(work, ignore_errors=True)


def run(tier, replay=None):
    from mchap.assemble import mutation, structural
    from mchap.assemble import mcmc as amcmc
    from mchap.assemble.mcmc import DenovoMCMC, _homozygosity_probabilities

    chk = C.Check(PROP, tier, MODULE, THEOREMS, RULE, assumptions=[
        "np.random.shuffle produces a permutation of the rows (numpy is trusted)",
        "thresholds within 1e-9 of a homozygosity probability are excluded from comparison (float comparison is runtime behaviour)",
    ])
    chk.prove()
    drv = C.Driver()
    r = C.rng(PROP)

    # ------------------------------------------------------------------ sweep: recorder under py_func
    shapes = [(1, 1), (2, 3), (4, 5), (3, 40), (2, 127), (2, 128), (2, 129), (1, 200), (2, 200), (4, 130), (6, 64)]
    if tier == "thorough":
        shapes += [(2, 256), (2, 300), (1, 257), (8, 150), (130, 2), (200, 1), (3, 128)]
    if tier == "warm":
        shapes = [(2, 3), (2, 130)]
    ans = drv.ask([f"sweep.table {p} {n}" for p, n in shapes])
    visited = []

    seen_alleles = []

    def recorder(genotype, reads, llk, h, j, n_alleles, log_unique_haplotypes, inbreeding=0, temp=1, read_counts=None, cache=None):
        visited.append((int(h), int(j)))
        seen_alleles.append((int(j), int(n_alleles)))
        return llk, cache

    orig = mutation.base_step
    mutation.base_step = recorder
    try:
        for (ploidy, nb), a in zip(shapes, ans):
            visited.clear(); seen_alleles.clear()
            g = np.zeros((ploidy, nb), dtype=np.int8)
            reads = np.full((1, nb, 4), np.nan)
            np.random.seed(r.randrange(2 ** 31))
            site_alleles = np.array([r.choice([2, 2, 3, 4]) for _ in range(nb)], dtype=np.int8)    # bi-, tri- and tetra-allelic sites
            mutation.compound_step.py_func(g, reads, 0.0, site_alleles, float(np.log(site_alleles.astype(float)).sum()))
            wrong_na = [(j, na) for j, na in seen_alleles if not (0 <= j < nb) or na != int(site_alleles[j])]
            if wrong_na:
                chk.violation("the sweep hands a mutation attempt an allele number that is not that of its own SNV",
                              {"ploidy": ploidy, "n_base": nb, "site": wrong_na[0][0], "passed": wrong_na[0][1],
                               "site_alleles_first": site_alleles[:12].tolist()}, "C15/compound_step/site-alleles")
            model = sorted(tuple(int(x) for x in t.split(":")) for t in a.split())
            impl = sorted(visited)
            chk.count("sweep:recorder")
            chk.case(f"sweep.table {ploidy} {nb}", nb > 127 or ploidy * nb >= 8,
                     sample={"request": f"sweep.table {ploidy} {nb}", "impl_first": visited[:5], "model_first": model[:5]})
            case = {"ploidy": ploidy, "n_base": nb}
            if impl != model:
                chk.disagreement("pairs visited by compound_step != model sub-step table", case)
            want = sorted((h, j) for h in range(ploidy) for j in range(nb))
            if impl != want:
                from collections import Counter
                cnt = Counter((h % ploidy if h >= 0 else h + ploidy, j if j >= 0 else j + nb) for h, j in visited)
                missing = [p for p in want if cnt.get(p, 0) == 0][:5]
                twice = [p for p in want if cnt.get(p, 0) > 1][:5]
                chk.violation("an iteration does not attempt a mutation at every (haplotype, SNV) pair exactly once",
                              {**case, "never_visited": missing, "visited_more_than_once": twice, "n_visits": len(visited)},
                              "C15/compound_step/pairs")
    finally:
        mutation.base_step = orig

    # ------------------------------------------------------------------ sweep: jitted, forcing read set
    jit_shapes = [(1, 5), (1, 140), (2, 200)] if tier != "warm" else [(1, 5)]
    if tier == "thorough":
        jit_shapes += [(1, 300), (2, 129), (3, 260)]
    from mchap.assemble.likelihood import log_likelihood
    for ploidy, nb in jit_shapes:
        reads = np.zeros((1, nb, 2)); reads[0, :, 0] = 0.2; reads[0, :, 1] = 0.8
        counts = np.array([50], dtype=np.int64)
        g = np.zeros((ploidy, nb), dtype=np.int8)
        mutation.seed = None
        np.random.seed(7); from mchap.jitutils import seed_numba; seed_numba(r.randrange(2 ** 31))
        llk = log_likelihood(reads, g, read_counts=counts)
        mutation.compound_step(g, reads, llk, np.full(nb, 2, dtype=np.int8), math.log(2) * nb, 0.0, 1.0, counts, None)
        # a haploid/first-visited slot flips to 1 with probability ~1; a site where no haplotype carries 1 was never attempted
        untouched = [j for j in range(nb) if not g[:, j].any()]
        chk.count("sweep:jitted-forcing")
        chk.case(("jit-sweep", ploidy, nb), nb > 127)
        if untouched:
            chk.violation("jitted compound_step leaves SNVs untouched although every attempted mutation is accepted with probability ~1",
                          {"ploidy": ploidy, "n_base": nb, "untouched_sites": untouched[:10], "n_untouched": len(untouched)},
                          "C15/compound_step/pairs")

    # ------------------------------------------------------------------ random_breaks
    n_rb = {"warm": 5, "quick": 300, "thorough": 3000}[tier]
    lines, meta = [], []
    for _ in range(n_rb):
        n = r.choice([1, 2, 3, 4, 5, 8, 13, 40, 200])
        breaks = r.randint(0, n - 1) if r.random() < 0.9 else n + r.randint(0, 2)
        choices = [r.randrange(max(1, (n - 1) - k)) for k in range(breaks)] if breaks < n else [0] * breaks
        lines.append("sweep.breaks " + " ".join(map(str, [n] + choices)))
        meta.append((n, breaks, choices))
    ans = drv.ask(lines)
    orig_choice = np.random.choice
    for (n, breaks, choices), a, line in zip(meta, ans, lines):
        seq = list(choices)

        def forced(options, *args, **kw):
            return options[seq.pop(0)]

        np.random.choice = forced
        try:
            try:
                iv = structural.random_breaks.py_func(breaks, n)
                impl = " ".join(f"{int(x)}:{int(y)}" for x, y in iv)
            except ValueError:
                impl = "error:ValueError"
                iv = None
        finally:
            np.random.choice = orig_choice
        chk.count("random_breaks:forced")
        chk.case(line, breaks >= 2 and breaks < n, sample={"request": line, "impl": impl, "model": a})
        if impl != a:
            chk.disagreement("random_breaks impl != model", {"n": n, "breaks": breaks, "choices": choices, "impl": impl, "model": a})
        if iv is not None:
            ok = (len(iv) == breaks + 1 and iv[0][0] == 0 and iv[-1][1] == n and all(x < y for x, y in iv)
                  and all(iv[i][1] == iv[i + 1][0] for i in range(len(iv) - 1)))
            if not ok:
                chk.violation("random_breaks intervals do not partition the SNV range into breaks+1 contiguous non-empty intervals",
                              {"n": n, "breaks": breaks, "choices": choices, "intervals": [list(map(int, x)) for x in iv]}, "C15/random_breaks/partition")
    # jitted with real random draws
    from mchap.jitutils import seed_numba
    seed_numba(r.randrange(2 ** 31))
    for _ in range(n_rb):
        n = r.choice([1, 2, 3, 5, 8, 13, 40, 150, 300])
        breaks = r.randint(0, n - 1)
        iv = structural.random_breaks(breaks, n)
        chk.count("random_breaks:jitted")
        chk.case(("rb-jit", n, breaks, tuple(map(tuple, iv.tolist()))), breaks >= 2)
        ok = (len(iv) == breaks + 1 and iv[0][0] == 0 and iv[-1][1] == n and all(x < y for x, y in iv)
              and all(iv[i][1] == iv[i + 1][0] for i in range(len(iv) - 1)))
        if not ok:
            chk.violation("random_breaks intervals do not partition the SNV range into breaks+1 contiguous non-empty intervals",
                          {"n": n, "breaks": breaks, "intervals": iv.tolist()}, "C15/random_breaks/partition")

    # ------------------------------------------------------------------ homozygosity screen
    n_h = {"warm": 2, "quick": 60, "thorough": 600}[tier]
    lines, meta = [], []
    for _ in range(n_h):
        ploidy = r.choice([1, 2, 4, 6]); nb = r.randint(1, 5)
        n_alleles = G.gen_n_alleles(r, nb)
        truth = G.gen_genotype(r, ploidy, n_alleles, dup=0.8)
        reads, counts = G.gen_reads(r, n_alleles, r.randint(0, 12), haps=truth, gap=r.choice([0.0, 0.3]), style="encoded")
        F = r.choice([0.0, 0.1, 0.5])
        if len(counts) == 0:
            reads = np.full((1, nb, max(n_alleles)), np.nan); counts = np.array([1], dtype=np.int64)
        lines.append(" ".join(["sweep.hom"] + G.reads_tokens(reads, counts) + [str(ploidy), C.rat_str(F)] + [str(a) for a in n_alleles]))
        meta.append((ploidy, n_alleles, reads, counts, F))
    ans = drv.ask(lines)
    fix_lines, fix_meta = [], []
    for (ploidy, n_alleles, reads, counts, F), a, line in zip(meta, ans, lines):
        hp = _homozygosity_probabilities(reads, np.array(n_alleles, dtype=np.int8), ploidy, inbreeding=F, read_counts=counts)
        model = [[float(C.parse_rat(x)) for x in site.split()] for site in a.split(";")]
        chk.count("homozygosity")
        chk.case(line, True, sample=None)
        bad = False
        for j, na in enumerate(n_alleles):
            for al in range(na):
                if not C.close(float(hp[j, al]), model[j][al], rel=1e-8, abs_=1e-12):
                    bad = True
        if bad:
            chk.disagreement("_homozygosity_probabilities != model homProbs", {"ploidy": ploidy, "n_alleles": n_alleles, "inbreeding": F,
                                                                               "impl": hp.tolist(), "model": model})
        # thresholds: exact values, just above / below
        for j, na in enumerate(n_alleles):
            probs = [float(hp[j, al]) for al in range(na)]
            for thr in {0.999, 0.5, max(probs), max(probs) + 1e-6, max(probs) - 1e-6}:
                if thr <= 0 or any(0 < abs(p - thr) < 1e-9 for p in probs):
                    continue
                fix_lines.append("sweep.fix " + C.rat_str(thr) + " " + " ".join(C.rat_str(p) for p in probs))
                fix_meta.append((probs, thr))
    ans = drv.ask(fix_lines)
    for (probs, thr), a in zip(fix_meta, ans):
        fixed = np.array(probs) >= thr
        impl = "none"
        if fixed.any():
            impl = str(int(np.where(fixed)[0][-1]))
        chk.count("fix-threshold")
        if impl != a:
            chk.disagreement("fixed allele (hom_probs >= threshold, last wins) != model fixedAllele", {"probs": probs, "thr": thr, "impl": impl, "model": a})

    # ------------------------------------------------------------------ DenovoMCMC: fixing + re-insertion with a marker trace
    n_f = {"warm": 2, "quick": 40, "thorough": 400}[tier]
    orig_asm = amcmc._denovo_assembler
    n_long = {"warm": 0, "quick": 3, "thorough": 60}[tier]
    for it in range(n_f):
        long_locus = it < n_long           # > 127 SNVs with half the sites homozygous
        ploidy = r.choice([2, 4]) if not long_locus else r.choice([2, 3, 4])
        nb = r.randint(2, 7) if not long_locus else (r.randint(130, 160) if tier != "thorough" else r.randint(130, 300))
        n_alleles = [r.choice([2, 3]) for _ in range(nb)]
        # haplotypes: some sites homozygous (strong reads) and some heterozygous
        hom_sites = [r.random() < 0.5 for _ in range(nb)]
        truth = []
        base = [r.randrange(a) for a in n_alleles]
        for h in range(ploidy):
            truth.append([base[j] if hom_sites[j] else r.randrange(n_alleles[j]) for j in range(nb)])
        mode = r.random()
        n_rd = 0 if mode < 0.07 else r.randint(4, 14)          # a sample without reads: the screen sees the prior only
        reads, counts = G.gen_reads(r, n_alleles, n_rd, haps=truth, gap=0.1, style="encoded", max_count=4)
        if n_rd > 0 and it % 5 == 4:
            # deep data (amplicons, pools): hundreds of copies of every read, so that the probability of a homozygous
            # SNV is exactly 1.0 in double precision and a threshold of 1 is reached
            counts = counts * r.choice([60, 150, 400])
            chk.count("fit:deep-reads")
        if n_rd == 0:
            chk.count("fit:zero-reads")
        if 0.07 <= mode < 0.2 or (n_rd == 0 and r.random() < 0.5):
            counts = None                                        # read_counts=None: every row observed once
            chk.count("fit:read_counts=None")
        thr = r.choice([0.999, 0.9, 0.6, 0.5, 0.3, 0.0, 1.0])
        if n_rd > 0 and it % 5 == 4 and it % 2 == 0:
            thr = 1.0
        F = r.choice([0, 0.1, 0.5])
        n_chains = r.choice([1, 1, 2, 3])
        chk.count(f"fit:threshold={thr}"); chk.count(f"fit:inbreeding={F}"); chk.count(f"fit:chains={n_chains}")
        if long_locus:
            chk.count("fit:n_base>127")
        steps = 5
        captured = {}

        def fake_assembler(**kw):
            g = kw["genotype"]
            p_, nhet = g.shape
            captured["n_het"] = nhet
            captured["n_alleles"] = np.array(kw["n_alleles"]).tolist()
            captured["reads"] = np.array(kw["reads"], dtype=float, copy=True)
            captured["read_counts"] = None if kw.get("read_counts") is None else np.array(kw["read_counts"]).copy()
            trace = np.zeros((1, steps, p_, nhet), dtype=np.int8)
            for s in range(steps):
                for h in range(p_):
                    for k in range(nhet):
                        trace[0, s, h, k] = (s + h + k) % max(1, int(kw["n_alleles"][k]))
            return trace, np.zeros((1, steps))

        amcmc._denovo_assembler = fake_assembler
        try:
            model = DenovoMCMC(ploidy=ploidy, n_alleles=n_alleles, steps=steps, chains=n_chains, fix_homozygous=thr, random_seed=3, inbreeding=F)
            try:
                tr = model.fit(reads, read_counts=counts)
            except Exception as e:   # noqa: BLE001
                chk.violation(f"DenovoMCMC.fit raised {type(e).__name__} on a valid read set",
                              {"ploidy": ploidy, "n_alleles": n_alleles if nb <= 12 else f"{nb} sites", "threshold": thr, "inbreeding": F,
                               "n_reads": n_rd, "read_counts": None if counts is None else counts.tolist(), "error": repr(e)[:300]}, "C15/fix/raises")
                continue
        finally:
            amcmc._denovo_assembler = orig_asm
        # the screen on the reads the sampler sees (a sample without reads is given one all-gap read by fit)
        reads_seen = reads if n_rd > 0 else np.full((1, nb, reads.shape[2]), np.nan)
        counts_seen = counts if (n_rd > 0 or counts is None) else np.array([1], dtype=np.int64)
        hp = _homozygosity_probabilities(reads_seen, np.array(n_alleles, dtype=np.int8), ploidy, inbreeding=F, read_counts=counts_seen)
        # a probability within 1e-9 of the threshold WITHOUT being equal to it is a float-rounding question and is not
        # compared; exact equality is not ambiguous ("reaches" = >=; deep data gives probabilities of exactly 1.0)
        near = np.abs(hp[(hp > 0) & (hp != thr)] - thr)
        margin = np.min(near) if near.size else 1.0
        if (hp == thr).any():
            chk.count("fit:probability-equals-threshold")
        if margin < 1e-9:
            chk.count("skipped:threshold-margin")
            continue
        fixed = [None] * nb
        for j in range(nb):
            for al in range(n_alleles[j]):
                if hp[j, al] >= thr:
                    fixed[j] = al
        het_cols = [j for j in range(nb) if fixed[j] is None]
        chk.count("fit:reinsert")
        chk.case(("reinsert", it, tuple(fixed)), any(f is not None for f in fixed) and len(het_cols) > 0)
        case = {"ploidy": ploidy, "n_alleles": n_alleles if nb <= 12 else f"{nb} sites", "threshold": thr, "inbreeding": F, "chains": n_chains,
                "fixed": fixed if nb <= 12 else f"{sum(f is not None for f in fixed)} of {nb}", "hom_probs": hp.tolist() if nb <= 12 else "omitted",
                "n_reads": n_rd, "read_counts": None if counts is None else counts.tolist()}
        if het_cols and captured.get("n_het") != len(het_cols):
            chk.violation("the set of SNVs held fixed is not {sites whose homozygosity probability reaches the threshold}",
                          {**case, "sampled_sites": captured.get("n_het"), "expected": len(het_cols)}, "C15/fix/iff")
            continue
        if het_cols and captured.get("n_alleles") != [n_alleles[j] for j in het_cols]:
            chk.violation("the allele numbers handed to the sampler are not those of the SNVs that were not fixed",
                          {**case, "passed": captured.get("n_alleles"), "expected": [n_alleles[j] for j in het_cols]}, "C15/fix/site-alleles")
            continue
        # the reads handed to the sampler are the columns of the SNVs that were not fixed (model: `restrict`), in site order,
        # with the read counts untouched
        if het_cols:
            pat_ = ["x" if f is None else str(f) for f in fixed]
            mline = " ".join(["sweep.restrict", str(nb)] + pat_ + ["1"] + [str(j) for j in range(nb)])
            mcols = [int(x) for x in drv.ask1(mline).split()]
            chk.count("fit:restrict")
            if mcols != het_cols:
                chk.disagreement("sampled columns: model restrict != sites whose probabilities stay under the threshold",
                                 {**case, "model": mcols, "expected": het_cols})
                continue
            rd = captured.get("reads")
            if rd is None or rd.shape != (reads_seen.shape[0], len(mcols), reads_seen.shape[2]) \
                    or not np.array_equal(rd, np.asarray(reads_seen, dtype=float)[:, mcols], equal_nan=True):
                wrong = None
                if rd is not None and rd.ndim == 3 and rd.shape[0] == reads_seen.shape[0] and rd.shape[2] == reads_seen.shape[2]:
                    wrong = next((k for k in range(min(rd.shape[1], len(mcols)))
                                  if not np.array_equal(rd[:, k], np.asarray(reads_seen, dtype=float)[:, mcols[k]], equal_nan=True)), None)
                chk.violation("the reads handed to the sampler are not the columns of the SNVs that were not fixed (in site order)",
                              {**case, "sampled_sites": mcols if nb <= 40 else f"{len(mcols)} sites",
                               "shape_passed": None if rd is None else list(rd.shape), "first_wrong_sampled_column": wrong}, "C15/fix/restrict-reads")
                continue
            # (a sample without reads: fit mocks one all-gap read but passes the caller's empty count array on - the count of
            #  an all-gap read multiplies a log-likelihood of 0, so nothing is demanded of it here)
            rc = captured.get("read_counts")
            exp_rc = None if counts is None else np.asarray(counts)
            if n_rd > 0 and (rc is None) != (exp_rc is None) or n_rd > 0 and (rc is not None and not np.array_equal(rc, exp_rc)):
                chk.violation("the read counts handed to the sampler differ from the ones given to fit",
                              {**case, "passed": None if rc is None else rc.tolist()}, "C15/fix/restrict-counts")
                continue
        if tr.genotypes.shape[0] != n_chains:
            chk.violation("the trace does not hold one chain per requested chain", {**case, "chains_in_trace": int(tr.genotypes.shape[0])}, "C15/fix/chains")
            continue
        # expected trace: marker values at heterozygous columns, fixed allele elsewhere (rows compared as multisets per step), in every chain
        ok = True
        for c_, s in [(c_, s) for c_ in range(n_chains) for s in range(steps)]:
            gt = tr.genotypes[c_]  # (steps, ploidy, nb)  -- note GenotypeMultiTrace sorts haplotypes within each step
            exp_rows = []
            for h in range(ploidy):
                row = []
                for j in range(nb):
                    if fixed[j] is not None:
                        row.append(fixed[j])
                    else:
                        k = het_cols.index(j)
                        row.append((s + h + k) % n_alleles[j])
                exp_rows.append(tuple(row))
            got = sorted(tuple(int(x) for x in row) for row in gt[s])
            if got != sorted(exp_rows):
                ok = False
                phantom = [(j, int(row[j])) for row in got for j in range(nb) if int(row[j]) >= n_alleles[j]]
                if phantom and thr <= 0:
                    chk.violation("with a threshold <= 0 a SNV is fixed to an allele number the SNV does not have (the zero-probability padding "
                                  "columns of the homozygosity table also reach the threshold)",
                                  {**case, "chain": c_, "step": s, "site": phantom[0][0], "allele_in_trace": phantom[0][1],
                                   "alleles_of_that_site": n_alleles[phantom[0][0]]}, "C15/fix/padding-allele-fixed")
                else:
                    chk.violation("fixed SNVs do not reappear in the trace in the correct column with the correct allele",
                                  {**case, "chain": c_, "step": s, "trace": [list(x) for x in got] if nb <= 12 else "omitted",
                                   "expected": [list(x) for x in sorted(exp_rows)] if nb <= 12 else "omitted",
                                   "first_wrong_column": next((j for j in range(nb) if sorted(x[j] for x in got) != sorted(x[j] for x in exp_rows)), None)},
                                  "C15/fix/reinsert")
                break
        gt = tr.genotypes[0]
        # model correspondence of the re-insertion
        if ok and het_cols:
            pat = ["x" if f is None else str(f) for f in fixed]
            hetg = [[(0 + h + k) % n_alleles[het_cols[k]] for k in range(len(het_cols))] for h in range(ploidy)]
            line = " ".join(["sweep.reinsert", str(nb)] + pat + [str(ploidy)] + [str(a) for row in hetg for a in row])
            m = drv.ask1(line)
            got0 = sorted(tuple(int(x) for x in row) for row in gt[0])
            mod0 = sorted(tuple(int(x) for x in row.split()) for row in m.split("|"))
            if got0 != mod0:
                chk.disagreement("template re-insertion impl != model reinsert", {**case, "impl": got0, "model": mod0})
    iteration_part(chk, r, tier)
    cli_part(chk, r, tier)
    # ------------------------------------------------------------------ option plumbing of mchap assemble (shared observer)
    if tier != "warm":
        from . import plumbing
        plumbing.run_plumbing(chk, C.rng(PROP + ":plumbing"), None, PROP, programs=("assemble",), tier=tier)
    return chk.finish()
