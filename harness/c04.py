"""C04 — read likelihood: mixture semantics and symmetries.

Correspondence: `log_likelihood`, `log_likelihood_structural_change`, `structural_change`,
`log_likelihood_alleles` (calling) and the pedigree wrapper, jitted and `.py_func`, against
`log(lik)` of the Lean model. Oracles on the implementation: an independent Fraction evaluation of
the property's formula and the metamorphic relations (row / read permutation, count expansion,
rearranged-genotype equality).
"""
from __future__ import annotations

import math
from fractions import Fraction

import numpy as np

from . import common as C
from . import gen as G

PROP = "C04"
MODULE = "MCHap.Properties.C04"
THEOREMS = [
    "MCHap.C04.cell_gap",
    "MCHap.C04.readProb_all_gaps",
    "MCHap.C04.lik_perm_haps",
    "MCHap.C04.lik_perm_reads",
    "MCHap.C04.lik_count",
    "MCHap.C04.lik_count_zero",
    "MCHap.C04.lik_positiveReads",
    "MCHap.C04.likAlleles_perm",
    "MCHap.C04.likAllelesPedigree_eq",
    "MCHap.C04.lik_structural",
    "MCHap.C04.logLik_eq_log_lik",
]
RULE = ("cases: random (ploidy 1..8 and 16..128, 0..6 SNVs with 2..4 alleles, 0..8 unique reads with counts up to 3 / 60 / 1000 or "
        "read_counts=None, NaN gaps over a whole SNV or in a single cell, zero-probability non-alleles, a last axis wider than the "
        "largest allele number, hard 0/1 calls) x genotype (excess of duplicated haplotypes) x rearrangement (index vector contiguous or a "
        "strided int64 / int8 label column; interval as tuple, ndarray row or None); 150..400 unique reads and counts above 60 against "
        "the Fraction oracle only; loci of 40..95 SNVs. "
        "Non-trivial: ploidy >= 2, a NaN cell, a read with count >= 2, and >= 2 SNVs. Distinct by canonical request line.")


def llk_tag(x):
    x = float(x)
    if math.isnan(x):
        return "nan"
    if math.isinf(x):
        return "-inf" if x < 0 else "inf"
    return x


def same(impl, model_log, f32=False):
    if isinstance(impl, str) or isinstance(model_log, str):
        return impl == model_log
    if f32:
        return abs(impl - model_log) <= 4.0 * float(np.spacing(np.float32(abs(model_log) + 1.0)))
    return C.close_log(impl, model_log)


def gl_large_spaces(chk, r, tier, sig):
    """genotype_likelihoods over spaces of more than 1024 / 4096 genotypes: the array has one entry per genotype and entry i is the
    read likelihood of the i-th genotype in VCF order (`index_as_genotype_alleles(i)`), float32 storage allowed for"""
    import itertools as _it
    from mchap.calling.likelihood import log_likelihood_alleles
    from mchap.calling.exact import genotype_likelihoods
    from mchap.jitutils import index_as_genotype_alleles
    big = [(4, 13), (6, 8), (2, 60), (4, 12), (3, 30), (8, 7)]
    r.shuffle(big)
    for ploidy_, n_haps in big[: {"warm": 1, "quick": 3, "thorough": 6}[tier]]:
        n_base = 6
        space = list(_it.product(range(2), repeat=n_base))
        haps = [list(h) for h in r.sample(space, n_haps)]
        harr = np.array(haps, dtype=np.int8)
        truth = [haps[r.randrange(n_haps)] for _ in range(ploidy_)]
        reads, counts = G.gen_reads(r, [2] * n_base, r.randint(3, 8), haps=truth, style="encoded")
        gls = genotype_likelihoods(reads, ploidy_, harr, read_counts=counts)
        n_gen = math.comb(n_haps + ploidy_ - 1, ploidy_)
        chk.count("genotype_likelihoods:space>1024")
        chk.case(("gl-large", ploidy_, n_haps, n_gen), n_gen > 1024)
        if len(gls) != n_gen:
            chk.violation("genotype_likelihoods: the array does not have one entry per genotype", {"ploidy": ploidy_, "n_haplotypes": n_haps,
                          "length": int(len(gls)), "expected": n_gen}, sig)
            continue
        for gi in range(n_gen):
            g_ = index_as_genotype_alleles(gi, ploidy_)
            ref = float(log_likelihood_alleles(reads, counts, harr, g_))
            got = float(gls[gi])
            ok = (got == ref) if not math.isfinite(ref) else (math.isfinite(got) and abs(got - ref) <= 4.0 * float(np.spacing(np.float32(abs(ref) + 1.0))))
            if not ok:
                chk.violation("genotype_likelihoods: an entry is not the read likelihood of that genotype (float32 storage allowed for)",
                              {"ploidy": ploidy_, "n_haplotypes": n_haps, "haplotypes": haps, "counts": counts.tolist(), "genotype_index": gi,
                               "genotype": [int(x) for x in g_], "entry": got, "log_likelihood_alleles": ref}, sig)
                break



def run(tier, replay=None):
    from mchap.assemble.likelihood import log_likelihood, log_likelihood_structural_change
    from mchap.jitutils import structural_change
    from mchap.calling.likelihood import log_likelihood_alleles
    from mchap.calling.exact import genotype_likelihoods
    from mchap.jitutils import index_as_genotype_alleles, genotype_alleles_as_index
    from mchap.pedigree.likelihood import log_likelihood_alleles_cached as ped_llk

    chk = C.Check(PROP, tier, MODULE, THEOREMS, RULE, assumptions=[
        "float64 evaluation of the formula (rounding in log / products) is compared at rel 1e-9, not proved",
        "a zero-probability read with count 0 gives NaN in the code (-inf * 0); not generated for the assemble/calling path where counts are >= 1",
        "float64 underflow of a single read x haplotype product (more than ~300 decimal orders, e.g. > 75 SNVs all mismatching at Q40) makes the "
        "code return -inf where the exact value is finite; such inputs are outside the compared domain (observed, recorded in DESIGN.md)",
    ])
    chk.prove()
    drv = C.Driver()
    r = C.rng(PROP)
    n_cases = {"warm": 5, "quick": 400, "thorough": 4000}[tier]

    def exact_loglik(reads, counts, g):
        """the property's formula, independently: sum over reads of count x log(mean over haplotypes of the product over SNVs),
        each mean an exact Fraction (no power is taken, so counts of any size are fine)"""
        n_reads, n_base, _ = reads.shape
        total = 0.0
        for i in range(n_reads):
            rp = Fraction(0)
            for h in g:
                pr = Fraction(1)
                for j in range(n_base):
                    v = reads[i, j, h[j]]
                    if not math.isnan(v):
                        pr *= Fraction(float(v))
                rp += pr
            rp /= len(g)
            c = 1 if counts is None else int(counts[i])
            if rp == 0:
                if c == 0:
                    return math.nan      # the code gives -inf * 0; not generated (see assumptions)
                return -math.inf
            total += c * C.frac_log(rp)
        return total

    cases = []
    # long loci: many SNVs, confident reads far from the genotype (tiny but representable likelihoods)
    for i in range({"warm": 1, "quick": 30, "thorough": 300}[tier]):
        ploidy = r.choice([2, 4, 6])
        e = r.choice([1e-3, 1e-4])
        # keep a single read x haplotype product above float64 underflow (1e-308): that limit of the
        # implementation is runtime floating-point behaviour, outside the compared domain
        n_base = r.choice([40, 60, 70] if e < 5e-4 else [40, 60, 80, 95])
        n_alleles = [2] * n_base
        g = G.gen_genotype(r, ploidy, n_alleles, dup=0.3)
        far = [[1 - a for a in g[0]]]          # complementary haplotype: mismatches everywhere
        n_reads = r.randint(2, 6)
        reads, counts = G.gen_reads(r, n_alleles, n_reads, haps=far if r.random() < 0.7 else g, gap=r.choice([0.0, 0.3]), style="encoded", max_count=2)
        # make them confident (Q30..Q40) and mostly of count 1
        mask = ~np.isnan(reads)
        reads[mask & (reads > 0.5)] = 1 - e
        reads[mask & (reads <= 0.5)] = e
        if r.random() < 0.7:
            counts[:] = 1
        idx = list(range(ploidy)); r.shuffle(idx)
        lo = r.randint(0, n_base); hi = r.randint(lo, n_base)
        cases.append((ploidy, n_base, n_alleles, g, reads, counts, idx, lo, hi, {"stream": "long-locus"}))
    n_deep = {"warm": 1, "quick": 12, "thorough": 120}[tier]
    for i in range(n_cases + n_deep):
        deep = i >= n_cases            # 150-400 unique reads: the Fraction oracle only
        boundary = r.random() < 0.12 and not deep
        ploidy = r.choice([1, 2, 2, 3, 4, 4, 6, 8])
        if r.random() < 0.08 and not deep:
            ploidy = r.choice([16, 24, 48, 100, 128])
        n_base = r.choice([0, 1]) if boundary and r.random() < 0.4 else r.randint(1, 6)
        n_alleles = G.gen_n_alleles(r, n_base)
        g = G.gen_genotype(r, ploidy, n_alleles)
        n_reads = 0 if boundary and r.random() < 0.3 else r.randint(1, 8)
        if deep:
            n_reads = r.randint(150, 400)
        max_count = r.choice([3, 3, 60, 1000])
        reads, counts = G.gen_reads(r, n_alleles, n_reads, haps=g if r.random() < 0.7 else None,
                                    gap=1.0 if boundary and r.random() < 0.2 else r.choice([0.0, 0.2, 0.5]), max_count=max_count)
        var = {"stream": "deep" if deep else "random", "max_count": max_count}
        # a NaN in a single cell (one allele of one SNV of one read) instead of a whole SNV
        if n_reads and n_base and r.random() < 0.25:
            for _ in range(r.randint(1, 3)):
                i_, j_ = r.randrange(n_reads), r.randrange(n_base)
                reads[i_, j_, r.randrange(n_alleles[j_])] = np.nan
            var["single-cell-nan"] = True
        # a last axis wider than the largest number of alleles (columns no genotype can index)
        if r.random() < 0.2:
            pad = r.randint(1, 3)
            fill = r.choice([0.0, np.nan])
            reads = np.concatenate([reads, np.full(reads.shape[:2] + (pad,), fill)], axis=2)
            var["padded-last-axis"] = pad
        # read_counts=None: every read counts once
        if r.random() < 0.15:
            counts = np.ones(len(counts), dtype=np.int64)
            var["read_counts"] = "None"
        idx = [r.randrange(ploidy) for _ in range(ploidy)]
        if r.random() < 0.5:
            idx = list(range(ploidy)); r.shuffle(idx)
        lo = r.randint(0, n_base); hi = r.randint(lo, n_base)
        if r.random() < 0.2:
            lo, hi = 0, n_base
        # how the interval and the index vector are handed over: the assemble sampler passes a row of an int64 (n, 2)
        # array as interval and a strided column of its (ploidy, 2) label array as indices
        var["interval"] = r.choice(["tuple", "tuple", "ndarray", "none"])
        if var["interval"] == "none":
            lo, hi = 0, n_base
        var["indices"] = r.choice(["contiguous-int64", "strided-int64", "strided-int8"] if ploidy <= 127 else ["contiguous-int64", "strided-int64"])
        cases.append((ploidy, n_base, n_alleles, g, reads, counts, idx, lo, hi, var))

    lines, line_of = [], {}
    for k, (ploidy, n_base, n_alleles, g, reads, counts, idx, lo, hi, var) in enumerate(cases):
        if var["stream"] == "deep" or (len(counts) and int(counts.max()) > 60):
            continue      # exact rationals of these sizes are out of reach of the model driver: Fraction oracle only
        rt = G.reads_tokens(reads, counts)
        gt = G.genotype_tokens(g)
        line_of[k] = len(lines)
        lines.append(" ".join(["lik"] + rt + gt))
        lines.append(" ".join(["lik.struct"] + rt + gt + [str(x) for x in idx] + [str(lo), str(hi)]))
    ans = drv.ask(lines)

    for k, (ploidy, n_base, n_alleles, g, reads, counts, idx, lo, hi, var) in enumerate(cases):
        garr = np.array(g, dtype=np.int8).reshape(ploidy, n_base)
        # independent rearrangement: inside [lo, hi) haplotype h takes the alleles of haplotype idx[h]
        g_re = [[g[idx[h]][j] if lo <= j < hi else g[h][j] for j in range(n_base)] for h in range(ploidy)]
        if var.get("indices", "contiguous-int64") == "contiguous-int64":
            iarr = np.array(idx, dtype=np.int64)
        else:
            lab = np.zeros((ploidy, 2), dtype=np.int64 if var["indices"] == "strided-int64" else np.int8)
            lab[:, 0] = idx; lab[:, 1] = [r.randrange(ploidy) for _ in range(ploidy)]
            iarr = lab[:, 0]
        ikind = var.get("interval", "tuple")
        interval = None if ikind == "none" else ((lo, hi) if ikind == "tuple" else np.array([lo, hi], dtype=np.int64))
        rc = None if var.get("read_counts") == "None" else counts
        has_model = k in line_of
        has_nan = bool(np.isnan(reads).any())
        nontriv = ploidy >= 2 and has_nan and bool((counts >= 2).any() or rc is None) and n_base >= 2
        chk.count(f"ploidy={ploidy if ploidy <= 8 else '16..128'}"); chk.count(f"n_base={n_base}")
        chk.count(f"n_reads={len(counts) if len(counts) <= 8 else '150..400'}")
        chk.count(f"stream={var['stream']}"); chk.count(f"interval-as={ikind}"); chk.count(f"indices-as={var.get('indices', 'contiguous-int64')}")
        chk.count(f"max_count={var.get('max_count', 2)}"); chk.count("read_counts=" + ("None" if rc is None else "array"))
        for key in ("single-cell-nan", "padded-last-axis"):
            if key in var:
                chk.count(key)
        if not has_model:
            chk.count("model-skipped(Fraction oracle only)")
        small = reads.size <= 400
        case = {"ploidy": ploidy, "n_alleles": n_alleles, "genotype": g if ploidy <= 12 else g[:12] + ["..."], "counts": counts.tolist()[:40],
                "reads": [[[None if math.isnan(x) else x for x in row] for row in rd] for rd in reads.tolist()] if small else f"array {reads.shape}",
                "idx": idx, "interval": [lo, hi], "variant": var}
        # implementation, jitted and py_func
        vals = {}
        try:
            for name, f in (("jit", log_likelihood), ("py", log_likelihood.py_func)):
                vals[name] = llk_tag(f(reads, garr, read_counts=rc))
            for name, f in (("jit", log_likelihood_structural_change), ("py", log_likelihood_structural_change.py_func)):
                vals["s" + name] = llk_tag(f(reads, garr, iarr, interval=interval, read_counts=rc))
            g2 = garr.copy()
            structural_change(g2, iarr, interval=interval)
        except Exception as e:   # noqa: BLE001
            chk.violation(f"a likelihood entry point raises on a valid input: {type(e).__name__}: {e}", case, "C04/raises")
            continue
        impl_g = "|".join(" ".join(str(int(a)) for a in row) for row in g2)
        if has_model:
            l0 = line_of[k]
            m_lik = C.parse_rat(ans[l0])
            m_struct_s, m_g_s = (ans[l0 + 1].split(" ", 1) + [""])[:2]
            m_llk = llk_tag(C.frac_log(m_lik))
            m_sllk = llk_tag(C.frac_log(C.parse_rat(m_struct_s)))
            if m_lik == 0:
                chk.count("zero-likelihood")
            chk.case(lines[l0], nontriv, sample={"request": lines[l0][:300], "impl": vals["jit"], "model_log": m_llk})
            for name in ("jit", "py"):
                if not same(vals[name], m_llk):
                    chk.disagreement(f"log_likelihood ({name}) != log(model lik)", {**case, "impl": vals[name], "model": m_llk})
                if not same(vals["s" + name], m_sllk):
                    chk.disagreement(f"log_likelihood_structural_change ({name}) != log(model)", {**case, "impl": vals['s' + name], "model": m_sllk})
            if impl_g != m_g_s and n_base > 0:
                chk.disagreement("structural_change impl != model", {**case, "impl": impl_g, "model": m_g_s})
        else:
            chk.case(("oracle-only", k, ploidy, n_base, len(counts), var.get("max_count")), nontriv)
        # ---- oracles on the implementation (property statement evaluated independently)
        truth = llk_tag(exact_loglik(reads, rc, g))
        for name in ("jit", "py"):
            if not same(vals[name], truth):
                chk.violation("log_likelihood differs from the documented mixture formula",
                              {**case, "which": name, "impl": vals[name], "expected": truth}, "C04/log_likelihood/formula")
                break
        if n_base > 0 and g2.tolist() != g_re:
            chk.violation("structural_change does not give every haplotype the alleles of its index haplotype inside the interval "
                          "(and leave the rest unchanged)", {**case, "impl": g2.tolist()[:12], "expected": g_re[:12]}, "C04/structural_change")
        truth_s = llk_tag(exact_loglik(reads, rc, g_re))
        for name in ("sjit", "spy"):
            if not same(vals[name], truth_s):
                chk.violation("likelihood of a proposed rearrangement != mixture formula on the rearranged genotype",
                              {**case, "which": name, "proposal": vals[name], "expected": truth_s}, "C04/structural/formula")
                break
        # haplotype order
        perm = list(range(ploidy)); r.shuffle(perm)
        v2 = llk_tag(log_likelihood(reads, garr[perm], read_counts=rc))
        if not same(v2, vals["jit"]):
            chk.violation("log_likelihood depends on the order of haplotypes",
                          {**case, "perm": perm, "a": vals["jit"], "b": v2}, "C04/log_likelihood/hap-order")
        # read order
        if len(counts) > 1:
            rp = list(range(len(counts))); r.shuffle(rp)
            v3 = llk_tag(log_likelihood(reads[rp], garr, read_counts=None if rc is None else counts[rp]))
            if not same(v3, vals["jit"]):
                chk.violation("log_likelihood depends on the order of reads",
                              {**case, "perm": rp[:40], "a": vals["jit"], "b": v3}, "C04/log_likelihood/read-order")
        # count k == k copies (for both entry points); read_counts=None == counts of one
        if len(counts) > 0:
            rep = np.repeat(np.arange(len(counts)), counts)
            v4 = llk_tag(log_likelihood(reads[rep], garr, read_counts=None)) if len(rep) else 0.0
            if not same(v4, vals["jit"]):
                chk.violation("a read with count k is not treated like k identical reads",
                              {**case, "a": vals["jit"], "expanded": v4}, "C04/log_likelihood/counts")
            v4s = llk_tag(log_likelihood_structural_change(reads[rep], garr, iarr, interval=interval, read_counts=None)) if len(rep) else 0.0
            if not same(v4s, vals["sjit"]):
                chk.violation("the rearrangement likelihood does not treat a read with count k like k identical reads "
                              "(read_counts=None on the expanded reads)", {**case, "a": vals["sjit"], "expanded": v4s}, "C04/structural/counts")
            if rc is None:
                v6 = llk_tag(log_likelihood_structural_change(reads, garr, iarr, interval=interval, read_counts=counts))
                if not same(v6, vals["sjit"]):
                    chk.violation("read_counts=None is not the same as a count of one per read (rearrangement likelihood)",
                                  {**case, "none": vals["sjit"], "ones": v6}, "C04/structural/counts-none")
        # rearrangement equivalence
        v5 = llk_tag(log_likelihood(reads, g2, read_counts=rc))
        if not same(vals["sjit"], v5):
            chk.violation("likelihood of a proposed rearrangement != likelihood of the rearranged genotype",
                          {**case, "proposal": vals["sjit"], "rearranged": v5}, "C04/structural/equivalence")
        # the way the indices / the interval are handed over is immaterial
        v7 = llk_tag(log_likelihood_structural_change(reads, garr, np.array(idx, dtype=np.int64), interval=(lo, hi), read_counts=rc))
        if not same(v7, vals["sjit"]):
            chk.violation("the rearrangement likelihood depends on how interval / indices are passed (None vs tuple vs ndarray row; strided label column)",
                          {**case, "as_passed": vals["sjit"], "tuple+contiguous": v7}, "C04/structural/argument-form")

    # ---------------- allele-indexed wrappers (calling / pedigree)
    n2 = max(3, n_cases // 3)
    lines, meta = [], []
    for i in range(n2):
        n_base = r.randint(1, 5)
        n_alleles = G.gen_n_alleles(r, n_base)
        n_haps = r.randint(1, 6)
        haps = [G.gen_haplotype(r, n_alleles) for _ in range(n_haps)]
        ploidy = r.choice([1, 2, 4, 6])
        alleles = [r.randrange(n_haps) for _ in range(ploidy)]
        # 'hard': 0/1 base calls (phred quality 0 / error rate 0), so that some genotypes are impossible for some reads
        style_ = r.choice(["encoded", "free", "hard"])
        reads, counts = G.gen_reads(r, n_alleles, r.randint(1, 7), haps=haps, zero_counts=style_ != "hard", style=style_)
        lines.append(" ".join(["lik.alleles"] + G.reads_tokens(reads, counts) + G.genotype_tokens(haps) + [str(a) for a in alleles]))
        meta.append((haps, alleles, reads, counts))
    ans = drv.ask(lines)
    for line, a, (haps, alleles, reads, counts) in zip(lines, ans, meta):
        m1, m2 = (llk_tag(C.frac_log(C.parse_rat(x))) for x in a.split())
        harr = np.array(haps, dtype=np.int8)
        aarr = np.array(alleles, dtype=np.int64)
        pos = counts > 0
        i1 = llk_tag(log_likelihood_alleles(reads[pos], counts[pos], harr, aarr))
        i2 = llk_tag(ped_llk(reads, counts, harr, 0, np.sort(aarr), None))
        chk.count("alleles-wrapper")
        chk.case(line, len(set(alleles)) < len(alleles) and bool((counts == 0).any()))
        case = {"haplotypes": haps, "alleles": alleles, "counts": counts.tolist()}
        if not same(i1, m1):
            chk.disagreement("calling log_likelihood_alleles != model", {**case, "impl": i1, "model": m1})
        if not same(i2, m2):
            chk.disagreement("pedigree log_likelihood_alleles_cached != model", {**case, "impl": i2, "model": m2})
        if not same(i1, i2):
            chk.violation("pedigree and calling likelihood wrappers disagree for the same reads",
                          {**case, "calling": i1, "pedigree": i2}, "C04/alleles/wrappers")
        # the enumeration behind FORMAT/GL (and the array path of call-exact): entry i is the likelihood of the i-th genotype over
        # the haplotypes, stored as float32 - zero-probability base calls make the read impossible (-inf), gaps count as one
        ploidy_ = len(alleles)
        n_gen = math.comb(len(haps) + ploidy_ - 1, ploidy_)
        if n_gen <= 400:
            gls = genotype_likelihoods(reads[pos], ploidy_, harr, read_counts=counts[pos])
            chk.count("genotype_likelihoods"); n_inf = 0
            for gi in range(n_gen):
                g_ = index_as_genotype_alleles(gi, ploidy_)
                ref = float(log_likelihood_alleles(reads[pos], counts[pos], harr, g_))
                got = float(gls[gi])
                n_inf += ref == -math.inf
                ok = (got == ref) if not math.isfinite(ref) else (math.isfinite(got) and abs(got - ref) <= 4.0 * float(np.spacing(np.float32(abs(ref) + 1.0))))
                if not ok:
                    chk.violation("genotype_likelihoods: an entry is not the read likelihood of that genotype (float32 storage allowed for)",
                                  {**case, "genotype_index": gi, "genotype": [int(x) for x in g_], "entry": got, "log_likelihood_alleles": ref},
                                  "C04/genotype_likelihoods/entry")
                    break
            if n_inf:
                chk.count("genotype_likelihoods:with-impossible-genotypes")
            gi0 = int(genotype_alleles_as_index(np.sort(aarr)))
            if not same(llk_tag(float(gls[gi0])), m1, f32=True):
                chk.disagreement("genotype_likelihoods entry != model likelihood of that genotype", {**case, "impl": float(gls[gi0]), "model": m1})

    gl_large_spaces(chk, r, tier, "C04/genotype_likelihoods/entry")

    # ---------------- the pedigree wrapper as the sampler uses it: one cache object for all individuals of a family
    # (different ploidies, any listing order); every value it returns must be the mixture likelihood of that
    # individual's genotype and own reads
    from .c09 import ped_cache_factory
    import itertools
    n_fam = {"warm": 1, "quick": 8, "thorough": 60}[tier]
    for fam in range(n_fam):
        n_base = r.randint(1, 3)
        n_alleles = [2] * n_base
        haps = []
        for _ in range(40):
            h = G.gen_haplotype(r, n_alleles)
            if h not in haps:
                haps.append(h)
            if len(haps) == r.choice([2, 3, 4]):
                break
        harr = np.array(haps, dtype=np.int8)
        ploidies = [r.choice([2, 3, 4, 6]) for _ in range(r.randint(3, 5))]
        if fam % 2 == 0:
            ploidies.sort(reverse=True)
        per = [G.gen_reads(r, n_alleles, r.randint(1, 5), haps=haps, zero_counts=True, style="encoded") for _ in ploidies]
        cache = ped_cache_factory(ped_llk, per[0][0], per[0][1], harr)
        if cache is None:
            chk.count("family-cache:key-type-unknown")
            break
        todo = []
        for s_, pl in enumerate(ploidies):
            space = list(itertools.combinations_with_replacement(range(len(haps)), pl))
            r.shuffle(space)
            todo += [(s_, g) for g in space[:25]]
        todo = todo + todo
        r.shuffle(todo)
        lines = [" ".join(["lik.alleles"] + G.reads_tokens(*per[s_]) + G.genotype_tokens(haps) + [str(a) for a in g]) for s_, g in todo]
        for (s_, g), a, line in zip(todo, drv.ask(lines), lines):
            m2 = llk_tag(C.frac_log(C.parse_rat(a.split()[1])))
            rd, ct = per[s_]
            got = llk_tag(ped_llk(rd, ct, harr, s_, np.array(g, dtype=np.int64), cache))
            chk.count("family-cache")
            chk.case(("family", fam, s_, g), len(set(ploidies)) > 1)
            if not same(got, m2):
                chk.violation("the pedigree likelihood (cache shared by the individuals of a family) is not the mixture likelihood of "
                              "that individual's genotype and own reads",
                              {"ploidies": ploidies, "sample": s_, "genotype": list(g), "haplotypes": haps, "impl": got, "model": m2,
                               "counts": ct.tolist()}, "C04/pedigree/family-cache")
    # ------------------------------------------------------------------ per-sample / option plumbing of the programs (shared observer)
    if tier != "warm":
        from . import plumbing
        plumbing.run_plumbing(chk, C.rng(PROP + ":plumbing"), None, PROP, programs=("assemble", "call", "call-exact"), tier=tier)
    return chk.finish()
