"""C14 — posterior summaries are exact functionals of the retained trace.

Correspondence: every method of the two trace-class families on generated traces vs the Lean model
(`MCHap/Model/Trace.lean`, exe `driver_sum`):

* assemble: `GenotypeMultiTrace(...)` (`__post_init__` sort) `.burn(n)` `.posterior()`, `.replicate_incongruence(t)`;
  `PosteriorGenotypeDistribution.mode()`, `.mode_genotype_support()` (+ `.alleles()`, `.mode_genotype()`, SPM),
  `.allele_frequencies(dosage=False/True)`;
* call / call-pedigree: `GenotypeAllelesMultiTrace(...)` `.burn(n)` `.posterior()`, `.posterior_frequencies()`,
  `.replicate_incongruence(t)`, `.relabel(labels)`; `PosteriorGenotypeAllelesDistribution.mode()`,
  `.mode(genotype_support=True)`, `.as_array(n)`; `PedigreeAllelesMultiTrace.burn / .individual`.

Counts are integers, so probabilities are compared exactly (`float(k/N)`); float sums at rel 1e-9; ties of
`argsort` / `argmax` as sets; thresholds closer than 1e-9 to a compared value are counted, not compared.

Program level (`cli_part`): `mchap assemble`, `call` and `call-pedigree` run on a synthetic data set with
`DenovoMCMC.fit` / `CallingMCMC.fit` / `PedigreeCallingMCMC.fit` wrapped by a recorder (which keeps the FULL trace and in
three of four runs substitutes a synthetic trace: chains that agree during the burn-in and differ afterwards, the reverse,
random) and `LocusAssemblyData.format_vcf_record` wrapped to read the internal values; for --mcmc-burn in {0, 10, 30, 39
of 40, 32 of 64} x 1..3 chains x incongruence thresholds the GT / GPM / SPM / MCI / AFP / ACP / AOP / GP of every sample
column (internal value and printed text) are recomputed from the recorded trace minus exactly `burn` steps per chain.

Further unit streams: traces of 600-1100 steps dominated by one genotype (counts above 255), assemble traces without
variable positions, large haplotype panels at ploidy 3-4 (model on rank-compressed alleles), every summary of relabelled
traces (labels up to 199), pedigree traces of up to 9 samples / ploidy 1..8 / allele numbers up to 199 / all integer widths.

Implementation oracles (independent of the model): the empirical distribution over multisets computed with
`collections.Counter` from the raw array; expected allele counts / occurrence from the raw steps; the VCF index by
the closed formula with `math.comb`; the documented meaning of the incongruence flag (0 = at most one distinct
qualifying chain mode, 2 = the union of the modes' distinct alleles exceeds the ploidy, else 1; independent of
the order of the chains).
"""
from __future__ import annotations

import itertools
import math
from collections import Counter
from fractions import Fraction

import numpy as np

from . import common as C

PROP = "C14"
MODULE = "MCHap.Properties.C14"
THEOREMS = [
    "MCHap.C14.posterior_is_empirical",
    "MCHap.C14.posterior_entries",
    "MCHap.C14.posterior_sum_one",
    "MCHap.C14.posterior_sorted",
    "MCHap.C14.burn_exact",
    "MCHap.C14.canonTrace_perm_invariant",
    "MCHap.C14.posterior_perm_invariant",
    "MCHap.C14.call_posterior_eq_of_sorted",
    "MCHap.C14.expectation_eq",
    "MCHap.C14.mode_is_max",
    "MCHap.C14.support_prob_def",
    "MCHap.C14.support_is_max",
    "MCHap.C14.support_prob_empirical",
    "MCHap.C14.freq_count_occ_def",
    "MCHap.C14.freq_sum_one",
    "MCHap.C14.call_freq_def",
    "MCHap.C14.asArray_spec",
    "MCHap.C14.incongruenceFlag_spec",
    "MCHap.C14.incongruence_spec",
    "MCHap.C14.call_incongruence_spec",
    "MCHap.C14.incongruence_two_iff_partial",
    "MCHap.C14.orders_linear",
]
RULE = ("cases: one per (trace, burn-in) with 1..4 chains, 1..60 steps, ploidy 1..6, haplotype pools of 2..5 over 1..4 SNVs "
        "(allele pools of 2..5), per-chain dominant genotypes so that genotypes repeat and chains agree / disagree, within-step "
        "orderings shuffled, every burn-in 0..steps (steps = nothing retained: error branch), thresholds {0.6, 0.5, 0.75, 0.3, 0, 1, "
        "k/retained}; plus structured chains with prescribed mode supports (sizes 1..ploidy, unions below / at / above the ploidy, "
        "both chain orders); long traces (one genotype > 255 times), n_base = 0, panels of 70-200 alleles at ploidy 1-4, relabelled traces, "
        "pedigree traces of 1..9 samples; program level: every sample column of assemble / call / call-pedigree runs with recorded "
        "(real or substituted) sampler traces x burn-in x chains x threshold. Non-trivial: >= 2 distinct retained genotypes and some retained step stored in non-canonical order "
        "(assemble) / >= 2 distinct retained genotypes (call). Distinct by request line.")

SIG_F10 = "C14/assemble/replicate_incongruence-ploidy"


# --------------------------------------------------------------------------------------
# generation
# --------------------------------------------------------------------------------------

def gen_pool(r, n_base, n_nucl, k):
    seen, pool = set(), []
    for _ in range(k * 6):
        h = tuple(r.randrange(n_nucl) for _ in range(n_base))
        if h not in seen:
            seen.add(h)
            pool.append(h)
        if len(pool) == k:
            break
    return pool


def gen_steps(r, n_chains, n_steps, ploidy, pool_size):
    """chains x steps of allele-index genotypes (unsorted) over `pool_size` alleles"""
    shared = [r.randrange(pool_size) for _ in range(ploidy)]
    share = r.random() < 0.45
    chains = []
    for _ in range(n_chains):
        if share:
            dom = list(shared)
        else:
            sub = r.sample(range(pool_size), r.randint(1, min(pool_size, ploidy)))
            dom = [r.choice(sub) for _ in range(ploidy)]
        cands = [dom]
        for _ in range(r.randint(0, 3)):
            g = list(dom)
            if r.random() < 0.5:
                g[r.randrange(ploidy)] = r.randrange(pool_size)
            else:
                g = [r.choice(dom) for _ in range(ploidy)]   # same support, other dosage (maybe smaller support)
            cands.append(g)
        pdom = r.choice([0.35, 0.55, 0.7, 0.9])
        ch = []
        for _ in range(n_steps):
            g = list(dom if r.random() < pdom else r.choice(cands))
            r.shuffle(g)
            ch.append(g)
        chains.append(ch)
    return chains


def gen_shape(r, tier):
    n_chains = r.choice([1, 2, 2, 2, 3, 4])
    n_steps = r.choice([1, 2, 3, 4, 5, 6, 8, 8, 10, 12, 16, 16, 20, 25, 32, 40, 60])
    if tier == "warm":
        n_steps = min(n_steps, 6)
    ploidy = r.choice([1, 2, 2, 3, 4, 4, 5, 6])
    return n_chains, n_steps, ploidy


def thresholds(r, retained):
    out = [0.6]
    out.append(r.choice([0.5, 0.75, 0.3, 0.0, 1.0]))
    if retained > 0:
        out.append(r.randint(0, retained) / retained)
    return out


# --------------------------------------------------------------------------------------
# parsing of driver replies
# --------------------------------------------------------------------------------------

def p_hap(s):
    return tuple(int(x) for x in s.split(","))


def p_geno(s):
    return tuple(p_hap(h) for h in s.split(":"))


def p_alleles(s):
    return tuple(int(x) for x in s.split(":"))


def p_dist(s, pg):
    out = []
    for e in s.split():
        g, _, p = e.partition("=")
        out.append((pg(g), C.parse_rat(p)))
    return out


def p_entry(s, pg):
    if s == "error":
        return None
    g, _, p = s.partition("=")
    return pg(g), C.parse_rat(p)


def exact_eq(x: float, f: Fraction) -> bool:
    """a float that the code computed as count / total must be the correctly rounded k/N"""
    return float(x) == f.numerator / f.denominator


def pow2(n):
    return n > 0 and (n & (n - 1)) == 0


def dyadic(x: float) -> bool:
    return Fraction(x).denominator <= 1024


# --------------------------------------------------------------------------------------
# independent oracles
# --------------------------------------------------------------------------------------

def empirical(chains, burn, canon):
    """Counter over canonical genotypes of the retained steps, total"""
    cnt = Counter()
    n = 0
    for ch in chains:
        for g in ch[burn:]:
            cnt[canon(g)] += 1
            n += 1
    return cnt, n


def support_totals(cnt, n):
    tot = {}
    for g, k in cnt.items():
        key = frozenset(g)
        tot[key] = tot.get(key, Fraction(0)) + Fraction(k, n)
    return tot


def top_keys(d):
    """(keys with the exact maximum, True when another key is within 1e-9 of it without being equal)"""
    m = max(d.values())
    top = [k for k, v in d.items() if v == m]
    margin = any(v != m and abs(float(v) - float(m)) < 1e-9 for v in d.values())
    return top, m, margin


def chain_mode_candidates(ch_steps, canon, kind):
    """per chain: (list of candidate modes (frozenset support for 'asm', genotype tuple for 'call'), support total, margin)"""
    cnt = Counter(canon(g) for g in ch_steps)
    n = len(ch_steps)
    tot = support_totals(cnt, n)
    tops, m, margin = top_keys(tot)
    if kind == "asm":
        return [frozenset(t) for t in tops], m, margin
    cands = []
    for key in tops:
        inside = {g: Fraction(k, n) for g, k in cnt.items() if frozenset(g) == key}
        gt, _, mg = top_keys(inside)
        margin = margin or mg
        cands.extend(gt)
    return cands, m, margin


def documented_flags(chains, burn, thr: Fraction, ploidy, canon, kind, exact_ok):
    """set of flags the documented meaning allows (over tie choices); None = a float-margin case"""
    per = []
    for ch in chains:
        steps = ch[burn:]
        cands, m, margin = chain_mode_candidates(steps, canon, kind)
        if margin:
            return None
        if m != thr and abs(float(m) - float(thr)) < 1e-9:
            return None
        if m == thr and not exact_ok:
            return None
        if m >= thr:
            per.append(cands)
    n_comb = 1
    for c in per:
        n_comb *= len(c)
    if n_comb > 512:
        return None
    flags = set()
    for combo in itertools.product(*per):
        distinct = set(combo)
        if len(distinct) <= 1:
            flags.add(0)
        else:
            union = set()
            for m in combo:
                union |= set(m)
            flags.add(2 if len(union) > ploidy else 1)
    return flags


def vcf_index(alleles):
    return sum(math.comb(a + i, i + 1) for i, a in enumerate(sorted(alleles)))


# --------------------------------------------------------------------------------------
# assemble family
# --------------------------------------------------------------------------------------

def asm_request(burn, thr, chains, pool, ploidy, n_base):
    toks = ["tr.asm", str(burn), C.rat_str(thr), str(len(chains)), str(len(chains[0])), str(ploidy), str(n_base)]
    for ch in chains:
        for g in ch:
            for a in g:
                toks.extend(str(x) for x in pool[a])
    return " ".join(toks)


def run_asm_trace(chk, drv, r, chains, pool, ploidy, n_base, burns, tag, GenotypeMultiTrace, thr_override=None):
    n_chains, n_steps = len(chains), len(chains[0])
    arr = np.array([[[pool[a] for a in g] for g in ch] for ch in chains], dtype=np.int8)
    trace0 = GenotypeMultiTrace(arr, np.zeros((n_chains, n_steps)))
    canon = lambda g: tuple(sorted(pool[a] for a in g))
    reqs, meta = [], []
    for burn in burns:
        retained = n_steps - burn
        for thr in (thr_override or thresholds(r, retained)):
            reqs.append(asm_request(burn, thr, chains, pool, ploidy, n_base))
            meta.append((burn, thr))
            if burn == n_steps:
                break
    answers = drv.ask(reqs)
    seen_burn = set()

    def one(burn, thr, req, ans):
        case = {"family": "assemble", "chains": [[[list(pool[a]) for a in g] for g in ch] for ch in chains],
                "burn": burn, "threshold": thr, "ploidy": ploidy, "tag": tag}
        sec = ans.split(";")
        if ans == "bad-op" or len(sec) != 10:
            chk.disagreement("driver answered bad-op / malformed reply for tr.asm", {**case, "reply": ans[:200]})
            return
        cnt, n = empirical(chains, burn, canon)
        noncanon = any(tuple(pool[a] for a in g) != canon(g) for ch in chains for g in ch[burn:])
        chk.count(f"asm:chains={n_chains}"); chk.count(f"asm:ploidy={ploidy}")
        chk.count("asm:steps<=8" if n_steps <= 8 else "asm:steps<=20" if n_steps <= 20 else "asm:steps<=60")
        chk.count(f"asm:{tag}")
        t = trace0.burn(burn)
        first_of_burn = burn not in seen_burn
        seen_burn.add(burn)
        # ---------------- posterior
        post = t.posterior()
        impl_post = [(tuple(tuple(int(x) for x in h) for h in g), float(p)) for g, p in zip(post.genotypes, post.probabilities)]
        m_post = p_dist(sec[0], p_geno)
        chk.case(req, len(cnt) >= 2 and noncanon,
                 sample={"request": req[:300], "impl": str(impl_post[:4]), "model": sec[0][:300]})
        if first_of_burn:
            if t.genotypes.shape[1] != n_steps - burn or any(
                    not np.array_equal(t.genotypes[c], trace0.genotypes[c, burn:]) for c in range(n_chains)):
                chk.violation("burn(n) does not remove exactly the first n steps of every chain", case, "C14/assemble/burn")
            d_impl = dict(impl_post)
            if len(d_impl) != len(impl_post):
                chk.violation("posterior lists a genotype twice", {**case, "impl": str(impl_post)}, "C14/assemble/posterior-duplicate")
            expected = {g: Fraction(k, n) for g, k in cnt.items()}
            bad = set(d_impl) != set(expected) or any(not exact_eq(d_impl[g], expected[g]) for g in expected)
            if bad:
                chk.violation("assemble posterior is not the empirical distribution over unordered genotypes of the retained steps",
                              {**case, "impl": str(sorted(d_impl.items())), "expected": str(sorted(expected.items()))},
                              "C14/assemble/posterior-empirical")
            if any(impl_post[i][1] < impl_post[i + 1][1] for i in range(len(impl_post) - 1)):
                chk.violation("posterior is not listed by decreasing probability", {**case, "impl": str(impl_post)},
                              "C14/assemble/posterior-order")
            d_model = dict(m_post)
            if set(d_model) != set(d_impl) or any(not exact_eq(d_impl[g], d_model[g]) for g in d_model) \
                    or [float(p) for _, p in m_post] != [p for _, p in impl_post]:
                chk.disagreement("assemble posterior() != model posterior (as a map, and as a probability sequence)",
                                 {**case, "impl": str(impl_post), "model": sec[0]})
        if n == 0:
            chk.count("asm:nothing-retained")
            outcomes = []
            for f in (post.mode, post.mode_genotype_support, lambda: t.replicate_incongruence(thr)):
                try:
                    f(); outcomes.append("ok")
                except Exception as e:   # noqa: BLE001
                    outcomes.append("error")
            m_out = ["error" if sec[1] == "error" else "ok", "error" if sec[5] == "error" else "ok",
                     "error" if sec[8] == "error" else "ok"]
            if outcomes != m_out:
                chk.disagreement("error behaviour on an empty retained trace differs", {**case, "impl": outcomes, "model": m_out})
            return
        expected = {g: Fraction(k, n) for g, k in cnt.items()}
        if first_of_burn:
            # ---------------- mode
            mg, mp = post.mode()
            mg = tuple(tuple(int(x) for x in h) for h in mg)
            tops, mx, _ = top_keys(expected)
            if mg not in tops or not exact_eq(mp, mx):
                chk.violation("mode() is not a genotype of maximal posterior probability",
                              {**case, "impl": [str(mg), float(mp)], "max": str(mx)}, "C14/assemble/mode")
            mm = p_entry(sec[1], p_geno)
            if mm is None or not exact_eq(mp, mm[1]) or (len(tops) == 1 and mm[0] != mg):
                chk.disagreement("mode() != model mode", {**case, "impl": [str(mg), float(mp)], "model": sec[1]})
            if len(tops) > 1:
                chk.count("asm:mode-tie")
            # ---------------- mode genotype support
            sup = post.mode_genotype_support()
            s_impl = {tuple(tuple(int(x) for x in h) for h in g): float(p) for g, p in zip(sup.genotypes, sup.probabilities)}
            spm = float(sup.probabilities.sum())
            tot = support_totals(cnt, n)
            stops, smax, smargin = top_keys(tot)
            keys = {frozenset(g) for g in s_impl}
            if len(keys) != 1:
                chk.violation("mode_genotype_support mixes genotypes of different supports", {**case, "impl": str(s_impl)},
                              "C14/assemble/support-mixed")
            elif next(iter(keys)) not in tot:
                chk.violation("mode_genotype_support reports a set of haplotypes that no retained step has", {**case, "impl": str(s_impl)},
                              "C14/assemble/support-members")
            else:
                key = next(iter(keys))
                exp_dist = {g: p for g, p in expected.items() if frozenset(g) == key}
                if set(exp_dist) != set(s_impl) or any(not exact_eq(s_impl[g], exp_dist[g]) for g in exp_dist):
                    chk.violation("mode_genotype_support does not list every retained genotype with the mode's distinct haplotypes",
                                  {**case, "impl": str(s_impl), "expected": str(exp_dist)}, "C14/assemble/support-members")
                if not C.close(spm, float(tot[key])):
                    chk.violation("support probability is not the total probability of the genotypes with the mode's distinct haplotypes",
                                  {**case, "impl": spm, "expected": str(tot[key])}, "C14/assemble/support-prob")
                if key not in stops and not (smargin or abs(float(tot[key]) - float(smax)) < 1e-9):
                    chk.violation("the reported support does not have maximal total probability",
                                  {**case, "impl": str(sorted(key)), "total": str(tot[key]), "max": str(smax)}, "C14/assemble/support-max")
                al = tuple(tuple(int(x) for x in h) for h in sup.alleles())
                if al != tuple(sorted(key)):
                    chk.violation("alleles() is not the sorted set of distinct haplotypes of the support",
                                  {**case, "impl": str(al)}, "C14/assemble/support-alleles")
                g2, p2 = sup.mode_genotype()
                g2 = tuple(tuple(int(x) for x in h) for h in g2)
                gtops, gmax, _ = top_keys(exp_dist)
                if g2 not in gtops or not exact_eq(p2, gmax):
                    chk.violation("mode_genotype() of the support is not its most probable genotype",
                                  {**case, "impl": [str(g2), float(p2)]}, "C14/assemble/support-mode")
                # model (only comparable when the float tie-break is unambiguous)
                m_sup = dict(p_dist(sec[2], p_geno))
                m_key = {frozenset(g) for g in m_sup}
                if len(stops) == 1 and not smargin:
                    if set(m_sup) != set(s_impl) or any(not exact_eq(s_impl[g], m_sup[g]) for g in m_sup):
                        chk.disagreement("mode_genotype_support() != model modeSupportDist", {**case, "impl": str(s_impl), "model": sec[2]})
                    if not C.close(spm, float(C.parse_rat(sec[3]))):
                        chk.disagreement("support probability != model supportProb", {**case, "impl": spm, "model": sec[3]})
                    if sec[5] == "error" or p_geno(sec[5]) != al:
                        chk.disagreement("alleles() != model supportAlleles", {**case, "impl": str(al), "model": sec[5]})
                    me = p_entry(sec[4], p_geno)
                    if me is None or not exact_eq(p2, me[1]) or (len(gtops) == 1 and me[0] != g2):
                        chk.disagreement("support mode_genotype() != model supportModeGenotype",
                                         {**case, "impl": [str(g2), float(p2)], "model": sec[4]})
                else:
                    chk.count("asm:support-tie")
                    if m_key and not (m_key <= set(stops)):
                        chk.disagreement("model's mode support is not among the exact maximisers", {**case, "model": sec[2]})
            # ---------------- allele frequencies
            for dosage, s in ((False, sec[6]), (True, sec[7])):
                haps, fr, oc = post.allele_frequencies(dosage=dosage)
                f_impl = {tuple(int(x) for x in h): (float(a), float(b)) for h, a, b in zip(haps, fr, oc)}
                f_model = {}
                for e in s.split():
                    h, a, b = e.split("=")
                    f_model[p_hap(h)] = (C.parse_rat(a), C.parse_rat(b))
                exp = {}
                for g, k in cnt.items():
                    for h in set(g):
                        a, b = exp.get(h, (Fraction(0), Fraction(0)))
                        w = Fraction(k * g.count(h), n)
                        exp[h] = (a + (w if dosage else w / ploidy), b + Fraction(k, n))
                if set(exp) != set(f_impl) or any(
                        not C.close(f_impl[h][0], float(exp[h][0])) or not C.close(f_impl[h][1], float(exp[h][1])) for h in exp):
                    chk.violation("allele_frequencies: weight != expected copy number (/ploidy) or occurrence != P(count >= 1) over the retained steps",
                                  {**case, "dosage": dosage, "impl": str(f_impl), "expected": str(exp)}, "C14/assemble/allele-frequencies")
                if not C.close(sum(v[0] for v in f_impl.values()), float(ploidy) if dosage else 1.0):
                    chk.violation("allele frequencies do not sum to one (dosages to the ploidy)",
                                  {**case, "dosage": dosage, "impl": str(f_impl)}, "C14/assemble/allele-frequencies-sum")
                if set(f_model) != set(f_impl) or any(
                        not C.close(f_impl[h][0], float(f_model[h][0])) or not C.close(f_impl[h][1], float(f_model[h][1])) for h in f_model):
                    chk.disagreement("allele_frequencies() != model alleleFrequencies", {**case, "dosage": dosage, "impl": str(f_impl), "model": s})
        # ---------------- replicate incongruence
        flag = int(t.replicate_incongruence(thr))
        retained = n_steps - burn
        exact_ok = pow2(retained) and dyadic(thr)
        allowed = documented_flags(chains, burn, Fraction(thr), ploidy, canon, "asm", exact_ok)
        chk.count(f"asm:flag={flag}")
        if allowed is None:
            chk.count("asm:incongruence-float-margin(not compared)")
        else:
            if sec[8] == "error" or (len(allowed) == 1 and int(sec[8]) != flag):
                chk.disagreement("replicate_incongruence() != model replicateIncongruence", {**case, "impl": flag, "model": sec[8]})
            if flag not in allowed:
                chk.violation("assemble replicate_incongruence: flag differs from the documented meaning (2 iff the union of the qualifying "
                              "chain modes' distinct haplotypes exceeds the ploidy)",
                              {**case, "impl": flag, "documented": sorted(allowed)},
                              SIG_F10 if (flag == 2 and 2 not in allowed) else "C14/assemble/replicate_incongruence")
            if n_chains > 1 and first_of_burn:
                orders = [list(reversed(range(n_chains)))]
                if n_chains > 2:
                    o = list(range(n_chains)); r.shuffle(o); orders.append(o)
                for o in orders:
                    t2 = GenotypeMultiTrace(arr[o], np.zeros((n_chains, n_steps))).burn(burn)
                    f2 = int(t2.replicate_incongruence(thr))
                    if f2 != flag:
                        chk.violation("assemble replicate_incongruence depends on the order of the chains",
                                      {**case, "impl": flag, "chain_order": o, "impl_reordered": f2}, SIG_F10)
                        break

    for (burn, thr), req, ans in zip(meta, reqs, answers):
        try:
            one(burn, thr, req, ans)
        except Exception as e:   # noqa: BLE001 - the implementation raised on a valid trace
            chk.violation(f"the implementation raised {type(e).__name__} on a valid trace / burn-in",
                          {"family": "assemble", "chains": [[[list(pool[a]) for a in g] for g in ch] for ch in chains],
                           "burn": burn, "threshold": thr, "error": repr(e)[:300]}, "C14/assemble/raises")
    # metamorphic: other within-step orderings, same multisets
    arr2 = arr.copy()
    for c in range(n_chains):
        for s in range(n_steps):
            o = list(range(ploidy)); r.shuffle(o)
            arr2[c, s] = arr2[c, s][o]
    p1 = trace0.posterior()
    p2 = GenotypeMultiTrace(arr2, np.zeros((n_chains, n_steps))).posterior()
    d1 = {g.tobytes(): float(p) for g, p in zip(p1.genotypes, p1.probabilities)}
    d2 = {g.tobytes(): float(p) for g, p in zip(p2.genotypes, p2.probabilities)}
    if d1 != d2:
        chk.violation("assemble posterior changes when haplotypes are reordered inside steps",
                      {"family": "assemble", "chains": arr.tolist(), "reordered": arr2.tolist()}, "C14/assemble/posterior-order-dependence")


# --------------------------------------------------------------------------------------
# call family
# --------------------------------------------------------------------------------------

def call_request(burn, thr, n_allele, chains, ploidy):
    toks = ["tr.call", str(burn), C.rat_str(thr), str(n_allele), str(len(chains)), str(len(chains[0])), str(ploidy)]
    for ch in chains:
        for g in ch:
            toks.extend(str(a) for a in g)
    return " ".join(toks)


def run_call_trace(chk, drv, r, chains, n_allele, ploidy, burns, sorted_rows, tag, Trace, thr_override=None, compress=False):
    """`compress`: the Lean model is asked about the same trace with the used alleles renamed 0..k-1 in increasing order (a strictly
    increasing renaming commutes with every summary); used for large panels at ploidy >= 3, where the G-ordered array of the model
    would have millions of entries.  The implementation always sees the real allele numbers."""
    n_chains, n_steps = len(chains), len(chains[0])
    amap = sorted({a for ch in chains for g in ch for a in g}) if compress else None
    rank = {a: i for i, a in enumerate(amap)} if compress else None
    m_chains = [[[rank[a] for a in g] for g in ch] for ch in chains] if compress else chains
    m_n_allele = len(amap) if compress else n_allele
    un = (lambda g: tuple(amap[a] for a in g)) if compress else (lambda g: g)
    p_all = lambda t: un(p_alleles(t))
    # the samplers store allele indices as int32 / int64; int8 only fits panels of at most 128 haplotypes
    arr = np.array(chains, dtype=r.choice([np.int8, np.int16, np.int64] if n_allele <= 127 else [np.int16, np.int32, np.int64]))
    trace0 = Trace(arr, np.zeros((n_chains, n_steps)), n_allele)
    canon = lambda g: tuple(sorted(g))
    ident = lambda g: tuple(g)
    reqs, meta = [], []
    for burn in burns:
        for thr in (thr_override or thresholds(r, n_steps - burn)):
            reqs.append(call_request(burn, thr, m_n_allele, m_chains, ploidy))
            meta.append((burn, thr))
            if burn == n_steps:
                break
    answers = drv.ask(reqs)
    seen_burn = set()

    def one(burn, thr, req, ans):
        case = {"family": "call", "chains": chains if n_steps * n_chains <= 400 else "long trace: see request", "burn": burn, "threshold": thr, "ploidy": ploidy, "n_allele": n_allele,
                "sorted_rows": sorted_rows, "tag": tag}
        sec = ans.split(";")
        if ans == "bad-op" or len(sec) != 7:
            chk.disagreement("driver answered bad-op / malformed reply for tr.call", {**case, "reply": ans[:200]})
            return
        # what the class sees: rows as stored (it does not sort)
        cnt_rows, n = empirical(chains, burn, ident)
        cnt, _ = empirical(chains, burn, canon)
        chk.count(f"call:chains={n_chains}"); chk.count(f"call:ploidy={ploidy}"); chk.count(f"call:{tag}")
        chk.count("call:sorted-rows" if sorted_rows else "call:unsorted-rows(model mirror only for posterior)")
        t = trace0.burn(burn)
        first_of_burn = burn not in seen_burn
        seen_burn.add(burn)
        post = t.posterior()
        impl_post = [(tuple(int(x) for x in g), float(p)) for g, p in zip(post.genotypes, post.probabilities)]
        chk.case(req, len(cnt) >= 2, sample={"request": req[:300], "impl": str(impl_post[:4]), "model": sec[0][:300]})
        if first_of_burn:
            if t.genotypes.shape[1] != n_steps - burn or not np.array_equal(t.genotypes, arr[:, burn:]) or t.n_allele != n_allele:
                chk.violation("burn(n) does not remove exactly the first n steps of every chain", case, "C14/call/burn")
            d_impl = dict(impl_post)
            m_post = p_dist(sec[0], p_all)
            d_model = dict(m_post)
            if set(d_model) != set(d_impl) or any(not exact_eq(d_impl[g], d_model[g]) for g in d_model) \
                    or [float(p) for _, p in m_post] != [p for _, p in impl_post]:
                chk.disagreement("call posterior() != model callPosterior", {**case, "impl": str(impl_post), "model": sec[0]})
            if sorted_rows:
                expected = {g: Fraction(k, n) for g, k in cnt.items()} if n else {}
                if set(d_impl) != set(expected) or any(not exact_eq(d_impl[g], expected[g]) for g in expected) \
                        or len(d_impl) != len(impl_post):
                    chk.violation("call posterior is not the empirical distribution over unordered genotypes of the retained steps",
                                  {**case, "impl": str(impl_post), "expected": str(expected)}, "C14/call/posterior-empirical")
                if any(impl_post[i][1] < impl_post[i + 1][1] for i in range(len(impl_post) - 1)):
                    chk.violation("posterior is not listed by decreasing probability", {**case, "impl": str(impl_post)},
                                  "C14/call/posterior-order")
        if n == 0:
            chk.count("call:nothing-retained")
            outcomes = []
            for f in (post.mode, lambda: post.mode(genotype_support=True), lambda: t.replicate_incongruence(thr)):
                try:
                    f(); outcomes.append("ok")
                except Exception:   # noqa: BLE001
                    outcomes.append("error")
            m_out = ["error" if sec[1] == "error" else "ok", "error" if sec[2] == "error" else "ok",
                     "error" if sec[6] == "error" else "ok"]
            if outcomes != m_out:
                chk.disagreement("error behaviour on an empty retained trace differs", {**case, "impl": outcomes, "model": m_out})
            return
        view = cnt if sorted_rows else cnt_rows          # the distribution over what the class treats as states
        expected = {g: Fraction(k, n) for g, k in view.items()}
        if first_of_burn:
            # ---------------- mode / support mode
            mg, mp = post.mode()
            mg = tuple(int(x) for x in mg)
            tops, mx, _ = top_keys(expected)
            if sorted_rows and (mg not in tops or not exact_eq(mp, mx)):
                chk.violation("mode() is not a genotype of maximal posterior probability", {**case, "impl": [mg, float(mp)]}, "C14/call/mode")
            mm = p_entry(sec[1], p_all)
            if mm is None or not exact_eq(mp, mm[1]) or (len(tops) == 1 and mm[0] != mg):
                chk.disagreement("call mode() != model", {**case, "impl": [mg, float(mp)], "model": sec[1]})
            g2, p2, spm = post.mode(genotype_support=True)
            g2 = tuple(int(x) for x in g2); p2 = float(p2); spm = float(spm)
            if sorted_rows:
                tot = support_totals(cnt, n)
                stops, smax, smargin = top_keys(tot)
                key = frozenset(g2)
                inside = {g: p for g, p in expected.items() if frozenset(g) == key}
                gtops, gmax, gmargin = top_keys(inside) if inside else ([], None, False)
                if not C.close(spm, float(tot.get(key, -1))):
                    chk.violation("support probability is not the total probability of the genotypes with the mode's distinct alleles",
                                  {**case, "impl": spm, "expected": str(tot.get(key))}, "C14/call/support-prob")
                if key not in stops and not (smargin or abs(float(tot.get(key, 0)) - float(smax)) < 1e-9):
                    chk.violation("the reported support does not have maximal total probability",
                                  {**case, "impl": sorted(key), "max": str(smax)}, "C14/call/support-max")
                if g2 not in gtops or not exact_eq(p2, gmax):
                    chk.violation("mode(genotype_support=True) is not the most probable genotype of its support",
                                  {**case, "impl": [g2, p2]}, "C14/call/support-mode")
                unambiguous = len(stops) == 1 and not smargin and len(gtops) == 1 and not gmargin
            else:
                # unsorted rows: the support key is the first-occurrence order of the row — only the mirror is compared
                unambiguous = False
            me = p_entry(sec[2], p_all)
            if unambiguous:
                if me is None or me[0] != g2 or not exact_eq(p2, me[1]) or not C.close(spm, float(C.parse_rat(sec[3]))):
                    chk.disagreement("call mode(genotype_support=True) != model", {**case, "impl": [g2, p2, spm], "model": sec[2] + ";" + sec[3]})
            else:
                chk.count("call:support-tie-or-unsorted")
            # ---------------- posterior frequencies (order invariant by construction)
            fr, co, oc = t.posterior_frequencies()
            exp_c = [Fraction(sum(g.count(a) for ch in chains for g in ch[burn:]), n) for a in range(n_allele)]
            exp_o = [Fraction(sum(1 for ch in chains for g in ch[burn:] if a in g), n) for a in range(n_allele)]
            ok = len(fr) == n_allele and all(
                exact_eq(co[a], exp_c[a]) and exact_eq(oc[a], exp_o[a]) and C.close(float(fr[a]), float(exp_c[a] / ploidy))
                for a in range(n_allele))
            if not ok:
                chk.violation("posterior_frequencies: ACP != mean count, AOP != fraction of steps containing the allele, or AFP != ACP / ploidy",
                              {**case, "impl": [fr.tolist(), co.tolist(), oc.tolist()]}, "C14/call/posterior-frequencies")
            if not C.close(float(np.sum(fr)), 1.0) or not C.close(float(np.sum(co)), float(ploidy)):
                chk.violation("posterior allele frequencies do not sum to one", {**case, "impl": fr.tolist()}, "C14/call/posterior-frequencies-sum")
            if sec[4] == "error":
                chk.disagreement("model callFrequencies answered error", case)
            else:
                mf = [tuple(C.parse_rat(x) for x in e.split(",")) for e in sec[4].split()]
                if compress and len(mf) == len(amap):
                    full = [(Fraction(0), Fraction(0), Fraction(0))] * n_allele
                    for i_, a_ in enumerate(amap):
                        full[a_] = mf[i_]
                    mf = full
                if len(mf) != n_allele or any(
                        not C.close(float(fr[a]), float(mf[a][0])) or not exact_eq(co[a], mf[a][1]) or not exact_eq(oc[a], mf[a][2])
                        for a in range(n_allele)):
                    chk.disagreement("posterior_frequencies() != model callFrequencies", {**case, "impl": [fr.tolist(), co.tolist(), oc.tolist()], "model": sec[4]})
            # ---------------- as_array (sorted rows only: an unsorted row is not a valid argument of the index map)
            if sorted_rows:
                ga = post.as_array(n_allele)
                size = math.comb(n_allele + ploidy - 1, ploidy)
                exp_sparse = {vcf_index(g): p for g, p in expected.items()}
                nz = [int(i) for i in np.flatnonzero(ga)]
                if len(ga) != size or set(nz) != set(exp_sparse) or any(not exact_eq(ga[i], exp_sparse[i]) for i in nz) \
                        or not C.close(float(np.sum(ga)), 1.0):
                    chk.violation("as_array: entry at the VCF index of g is not P(g) / other entries not 0 / sum not 1",
                                  {**case, "impl_nonzero": {i: float(ga[i]) for i in nz[:50]}, "expected": {k: str(v) for k, v in exp_sparse.items()}},
                                  "C14/call/as-array")
                if compress:
                    chk.count("call:as-array-model-skipped(compressed alleles)")
                elif sec[5] == "error":
                    chk.disagreement("model asArray answered error", case)
                else:
                    ma = [C.parse_rat(x) for x in sec[5].split()]
                    if len(ma) != len(ga) or any(not exact_eq(ga[i], ma[i]) for i in range(len(ma))):
                        chk.disagreement("as_array() != model asArray", {**case, "impl": ga.tolist(), "model": sec[5]})
        # ---------------- replicate incongruence
        flag = int(t.replicate_incongruence(thr))
        chk.count(f"call:flag={flag}")
        if sorted_rows:
            exact_ok = pow2(n_steps - burn) and dyadic(thr)
            allowed = documented_flags(chains, burn, Fraction(thr), ploidy, canon, "call", exact_ok)
            if allowed is None:
                chk.count("call:incongruence-float-margin(not compared)")
            else:
                if sec[6] == "error" or (len(allowed) == 1 and int(sec[6]) != flag):
                    chk.disagreement("call replicate_incongruence() != model", {**case, "impl": flag, "model": sec[6]})
                if flag not in allowed:
                    chk.violation("call replicate_incongruence: flag differs from the documented meaning",
                                  {**case, "impl": flag, "documented": sorted(allowed)}, "C14/call/replicate_incongruence")
                if n_chains > 1 and first_of_burn:
                    o = list(reversed(range(n_chains)))
                    f2 = int(Trace(arr[o], np.zeros((n_chains, n_steps)), n_allele).burn(burn).replicate_incongruence(thr))
                    if f2 != flag:
                        chk.violation("call replicate_incongruence depends on the order of the chains",
                                      {**case, "impl": flag, "impl_reordered": f2}, "C14/call/replicate_incongruence-order")

    for (burn, thr), req, ans in zip(meta, reqs, answers):
        try:
            one(burn, thr, req, ans)
        except Exception as e:   # noqa: BLE001 - the implementation raised on a valid trace
            chk.violation(f"the implementation raised {type(e).__name__} on a valid trace / burn-in",
                          {"family": "call", "chains": chains, "burn": burn, "threshold": thr, "error": repr(e)[:300]},
                          "C14/call/raises")


def run_relabel(chk, drv, r, n_cases, Trace):
    reqs, meta = [], []
    for _ in range(n_cases):
        n_chains, n_steps, ploidy = r.randint(1, 3), r.randint(1, 8), r.choice([1, 2, 3, 4, 6])
        k = r.randint(1, 5)
        chains = [[sorted(r.randrange(k) for _ in range(ploidy)) for _ in range(n_steps)] for _ in range(n_chains)]
        labels = sorted(r.sample(range(0, 12), k))            # np.where(~mask)[0]: strictly increasing
        n_new = r.choice([None, max(labels) + 1, max(labels) + 1 + r.randint(1, 3)])   # the record's allele count
        reqs.append(" ".join(["tr.relabel", "none" if n_new is None else str(n_new), str(k)] + [str(x) for x in labels]
                             + [str(n_chains), str(n_steps), str(ploidy)] + [str(a) for ch in chains for g in ch for a in g]))
        meta.append((chains, labels, ploidy, k, n_new))
    for (chains, labels, ploidy, k, n_new), req, ans in zip(meta, reqs, drv.ask(reqs)):
        arr = np.array(chains, dtype=np.int64)
        t = Trace(arr, np.zeros(arr.shape[:2]), k)
        t2 = t.relabel(np.array(labels)) if n_new is None else t.relabel(np.array(labels), n_allele=n_new)
        chk.count("relabel:n_allele=None" if n_new is None else "relabel:n_allele=given")
        if n_new is not None:
            fr, co, oc = t2.posterior_frequencies()
            if len(fr) != n_new or not C.close(float(np.sum(fr)), 1.0):
                chk.violation("posterior_frequencies of a relabelled trace does not have one entry per allele of the record",
                              {"chains": chains, "labels": labels, "n_allele": n_new, "impl": fr.tolist()}, "C14/call/relabel-n-allele")
        impl = f"{int(t2.n_allele)};{' '.join(str(int(x)) for x in t2.genotypes.ravel())}"
        chk.count("relabel")
        chk.case(req, k >= 2, sample=None)
        case = {"family": "call", "op": "relabel", "chains": chains, "labels": labels, "n_allele": n_new}
        if impl != ans:
            chk.disagreement("relabel() != model relabel", {**case, "impl": impl, "model": ans})
        # metamorphic: posterior of the relabelled trace = relabelled posterior; rows stay sorted
        p1, p2 = t.posterior(), t2.posterior()
        d1 = {tuple(labels[int(a)] for a in g): float(p) for g, p in zip(p1.genotypes, p1.probabilities)}
        d2 = {tuple(int(a) for a in g): float(p) for g, p in zip(p2.genotypes, p2.probabilities)}
        if d1 != d2 or any(list(g) != sorted(g) for g in d2):
            chk.violation("relabel (strictly increasing labels) does not commute with posterior()", {**case, "impl": str(d2)},
                          "C14/call/relabel")


def run_ped(chk, drv, r, n_cases, PedTrace):
    reqs, meta = [], []
    for _ in range(n_cases):
        n_chains, n_steps, n_samples = r.randint(1, 3), r.randint(1, 6), r.randint(1, 4)
        ploidies = [r.choice([2, 2, 4, 3]) for _ in range(n_samples)]
        mp = max(ploidies)
        k = r.randint(2, 4)
        tr = [[[sorted(r.randrange(k) for _ in range(p)) + [-1] * (mp - p) for p in ploidies] for _ in range(n_steps)]
              for _ in range(n_chains)]
        idx = r.randrange(n_samples)
        burn = r.randint(0, n_steps - 1)
        reqs.append(" ".join(["tr.ped", str(idx), str(n_chains), str(n_steps), str(n_samples), str(mp)]
                             + [str(a) for ch in tr for st in ch for g in st for a in g]))
        meta.append((tr, idx, burn, ploidies, k))
    for (tr, idx, burn, ploidies, k), req, ans in zip(meta, reqs, drv.ask(reqs)):
        arr = np.array(tr, dtype=np.int16)
        ind = PedTrace(arr, n_allele=k).individual(idx)
        impl = f"{ind.genotypes.shape[2]};{' '.join(str(int(x)) for x in ind.genotypes.ravel())}"
        chk.count("pedigree-individual")
        chk.case(req, len(set(ploidies)) > 1)
        case = {"family": "pedigree", "trace": tr, "index": idx}
        if impl != ans:
            chk.disagreement("PedigreeAllelesMultiTrace.individual() != model pedIndividual", {**case, "impl": impl, "model": ans})
        if ind.genotypes.shape[2] != ploidies[idx] or (ind.genotypes < 0).any():
            chk.violation("individual(): the sample's trace does not have the sample's ploidy", {**case, "impl": impl}, "C14/pedigree/individual")
        a = PedTrace(arr, n_allele=k).burn(burn).individual(idx).genotypes
        b = ind.burn(burn).genotypes
        if not np.array_equal(a, b) or a.shape[1] != arr.shape[1] - burn:
            chk.violation("pedigree burn(n) and individual() do not commute / burn is not exact", {**case, "burn": burn}, "C14/pedigree/burn")


def run_asm_nobase(chk, r, n_cases, GenotypeMultiTrace):
    """assemble traces of a locus without variable positions (n_base = 0): every step is the same (empty) genotype.
    The Lean driver has no encoding for haplotypes of length 0, so only the oracles are evaluated."""
    for _ in range(n_cases):
        n_chains, n_steps, ploidy = r.randint(1, 4), r.choice([1, 2, 5, 40]), r.choice([1, 2, 3, 4, 6])
        burn = r.randrange(n_steps)
        thr = r.choice([0.6, 0.0, 1.0])
        chk.count("asm:n_base=0")
        chk.case(["asm-nobase", n_chains, n_steps, ploidy, burn, thr], False)
        case = {"family": "assemble", "n_base": 0, "chains": n_chains, "steps": n_steps, "ploidy": ploidy, "burn": burn, "threshold": thr}
        try:
            t = GenotypeMultiTrace(np.zeros((n_chains, n_steps, ploidy, 0), dtype=np.int8), np.full((n_chains, n_steps), np.nan)).burn(burn)
            post = t.posterior()
            sup = post.mode_genotype_support()
            g, p = sup.mode_genotype()
            haps, fr, oc = post.allele_frequencies(dosage=True)
            _, fr1, _ = post.allele_frequencies(dosage=False)
            flag = int(t.replicate_incongruence(thr))
            ok = (t.genotypes.shape == (n_chains, n_steps - burn, ploidy, 0) and post.genotypes.shape == (1, ploidy, 0)
                  and [float(x) for x in post.probabilities] == [1.0] and float(post.mode()[1]) == 1.0
                  and float(sup.probabilities.sum()) == 1.0 and float(p) == 1.0 and np.shape(g) == (ploidy, 0)
                  and haps.shape == (1, 0) and [float(x) for x in fr] == [float(ploidy)] and [float(x) for x in fr1] == [1.0]
                  and [float(x) for x in oc] == [1.0] and flag == 0)
        except Exception as e:   # noqa: BLE001
            chk.violation(f"the implementation raised {type(e).__name__} on a trace without variable positions", {**case, "error": repr(e)[:300]},
                          "C14/assemble/nobase-raises")
            continue
        if not ok:
            chk.violation("trace without variable positions: the summaries are not those of the one-point distribution "
                          "(posterior {(): 1}, mode / support probability 1, allele frequency 1, incongruence 0)", case, "C14/assemble/nobase")


def run_relabel_summaries(chk, r, n_cases, Trace):
    """every summary of a relabelled trace (strictly increasing labels, as `np.where(~mask)[0]` gives them, up to allele numbers
    above 128) equals the summary of the relabelled rows computed independently"""
    for _ in range(n_cases):
        n_chains, n_steps, ploidy = r.randint(1, 3), r.choice([2, 4, 8, 16, 20]), r.choice([1, 2, 3, 4, 6])
        k = r.randint(1, 5)
        hi = r.choice([12, 12, 70, 140, 200])
        labels = sorted(r.sample(range(hi), k))
        if hi > 12 and r.random() < 0.7:
            labels[-1] = hi - 1
        n_new = max(labels) + 1 + r.choice([0, 0, 1, 3])
        if ploidy >= 4 and n_new > 40:
            n_new = max(labels) + 1          # keep the G-ordered array small enough to allocate quickly
        if math.comb(n_new + ploidy - 1, ploidy) > 3_000_000:
            ploidy = 2
        chains = [[sorted(g) for g in ch] for ch in gen_steps(r, n_chains, n_steps, ploidy, k)]
        burn = r.choice([0, 0, n_steps // 2, n_steps - 1])
        thr = r.choice([0.6, 0.5, 0.3])
        arr = np.array(chains, dtype=r.choice([np.int8, np.int16, np.int64]))
        new_rows = [[tuple(labels[a] for a in g) for g in ch] for ch in chains]
        case = {"family": "call", "op": "relabel+summaries", "chains": chains, "labels": labels, "n_allele": n_new, "burn": burn, "threshold": thr}
        chk.count("relabel-summaries"); chk.count("relabel-summaries:labels>=128" if labels[-1] >= 128 else "relabel-summaries:labels<128")
        chk.case(["relabel-summaries", chains, labels, n_new, burn, thr], k >= 2)
        try:
            t0 = Trace(arr, np.zeros(arr.shape[:2]), k).burn(burn)
            t2 = t0.relabel(np.array(labels), n_allele=n_new)
            post = t2.posterior()
            g2, p2, spm = post.mode(genotype_support=True)
            ga = post.as_array(n_new)
            f0, f2 = int(t0.replicate_incongruence(thr)), int(t2.replicate_incongruence(thr))
            fr, co, oc = t2.posterior_frequencies()
        except Exception as e:   # noqa: BLE001
            chk.violation(f"the implementation raised {type(e).__name__} on a relabelled trace", {**case, "error": repr(e)[:300]}, "C14/call/relabel-raises")
            continue
        canon = lambda g: tuple(sorted(g))
        cnt, n = empirical(new_rows, burn, canon)
        expected = {g: Fraction(c, n) for g, c in cnt.items()}
        tot = support_totals(cnt, n)
        stops, smax, smargin = top_keys(tot)
        g2 = tuple(int(x) for x in g2)
        key = frozenset(g2)
        inside = {g: p for g, p in expected.items() if frozenset(g) == key}
        ok_mode = bool(inside) and (key in stops or smargin) and abs(float(spm) - float(tot[key])) <= 1e-9 \
            and g2 in top_keys(inside)[0] and exact_eq(p2, top_keys(inside)[1])
        if not ok_mode:
            chk.violation("relabelled trace: mode(genotype_support=True) is not the most probable genotype of a support of maximal total probability",
                          {**case, "impl": [g2, float(p2), float(spm)], "expected_support_totals": {str(sorted(k_)): str(v) for k_, v in tot.items()}},
                          "C14/call/relabel-mode")
        size = math.comb(n_new + ploidy - 1, ploidy)
        exp_sparse = {vcf_index(g): p for g, p in expected.items()}
        nz = [int(i) for i in np.flatnonzero(ga)]
        if len(ga) != size or set(nz) != set(exp_sparse) or any(not exact_eq(ga[i], exp_sparse[i]) for i in nz):
            chk.violation("relabelled trace: as_array(n_allele of the record) is not P(g) at the VCF index of g and 0 elsewhere",
                          {**case, "impl_nonzero": {i: float(ga[i]) for i in nz[:40]}, "expected": {k_: str(v) for k_, v in exp_sparse.items()}},
                          "C14/call/relabel-as-array")
        if f0 != f2:
            chk.violation("replicate_incongruence changes under a strictly increasing relabelling", {**case, "before": f0, "after": f2},
                          "C14/call/relabel-incongruence")
        allowed = documented_flags(new_rows, burn, Fraction(thr), ploidy, canon, "call", pow2(n_steps - burn) and dyadic(thr))
        if allowed is not None and f2 not in allowed:
            chk.violation("relabelled trace: replicate_incongruence differs from the documented meaning", {**case, "impl": f2, "documented": sorted(allowed)},
                          "C14/call/relabel-incongruence")
        exp_c = [Fraction(sum(g.count(a) for ch in new_rows for g in ch[burn:]), n) for a in range(n_new)]
        exp_o = [Fraction(sum(1 for ch in new_rows for g in ch[burn:] if a in g), n) for a in range(n_new)]
        if len(fr) != n_new or any(not exact_eq(co[a], exp_c[a]) or not exact_eq(oc[a], exp_o[a]) or not C.close(float(fr[a]), float(exp_c[a] / ploidy))
                                   for a in range(n_new)):
            chk.violation("relabelled trace: posterior_frequencies is not (mean count / ploidy, mean count, occurrence) per allele of the record",
                          case, "C14/call/relabel-frequencies")


def run_ped_wide(chk, r, n_cases, PedTrace):
    """pedigree traces with up to 9 samples of ploidy 1..8, allele numbers up to 200 in every integer width that holds them, followed
    through individual(): the per-sample trace must be the sample's columns, and its summaries those of the sample's rows"""
    for _ in range(n_cases):
        n_chains, n_steps, n_samples = r.randint(1, 3), r.choice([1, 2, 5, 12]), r.randint(1, 9)
        ploidies = [r.choice([1, 2, 2, 3, 4, 4, 6, 8]) for _ in range(n_samples)]
        mp = max(ploidies)
        n_allele = r.choice([3, 5, 70, 140, 200])
        k = r.randint(2, 4)
        used = sorted(r.sample(range(n_allele), min(k, n_allele)))
        if n_allele > 5 and r.random() < 0.7:
            used[-1] = n_allele - 1
        tr = [[[sorted(r.choice(used) for _ in range(p)) + [-1] * (mp - p) for p in ploidies] for _ in range(n_steps)] for _ in range(n_chains)]
        dt = r.choice([np.int8, np.int16, np.int32, np.int64] if n_allele <= 127 else [np.int16, np.int32, np.int64])
        arr = np.array(tr, dtype=dt)
        idx = r.randrange(n_samples)
        burn = r.randrange(n_steps)
        p = ploidies[idx]
        chk.count("pedigree-wide"); chk.count(f"pedigree-wide:samples={'<=4' if n_samples <= 4 else '5-9'}")
        chk.count("pedigree-wide:alleles>=128" if used[-1] >= 128 else "pedigree-wide:alleles<128")
        chk.case(["ped-wide", tr, idx, burn, str(dt)], len(set(ploidies)) > 1 and n_samples > 4)
        case = {"family": "pedigree", "trace": tr if n_steps * n_samples <= 40 else "large", "index": idx, "ploidies": ploidies, "burn": burn,
                "n_allele": n_allele, "dtype": np.dtype(dt).name}
        try:
            ind = PedTrace(arr, n_allele=n_allele).burn(burn).individual(idx)
            post = ind.posterior()
            fr, co, oc = ind.posterior_frequencies()
            g2, p2, spm = post.mode(genotype_support=True)
        except Exception as e:   # noqa: BLE001
            chk.violation(f"the implementation raised {type(e).__name__} on a pedigree trace", {**case, "error": repr(e)[:300]}, "C14/pedigree/raises")
            continue
        rows = [[tuple(st[idx][:p]) for st in ch] for ch in tr]
        want = np.array([[list(g) for g in ch[burn:]] for ch in rows])
        if ind.genotypes.shape != want.shape or not np.array_equal(np.asarray(ind.genotypes, dtype=np.int64), want) or int(ind.n_allele) != n_allele:
            chk.violation("burn(n).individual(i) is not the sample's ploidy columns of the steps after the burn-in",
                          {**case, "impl_shape": list(ind.genotypes.shape), "expected_shape": list(want.shape)}, "C14/pedigree/individual")
            continue
        cnt, n = empirical(rows, burn, lambda g: tuple(sorted(g)))
        expected = {g: Fraction(c, n) for g, c in cnt.items()}
        d_impl = {tuple(int(x) for x in g): float(q) for g, q in zip(post.genotypes, post.probabilities)}
        if set(d_impl) != set(expected) or any(not exact_eq(d_impl[g], expected[g]) for g in expected):
            chk.violation("pedigree individual: posterior is not the empirical distribution of the sample's retained rows", {**case, "impl": str(d_impl)},
                          "C14/pedigree/posterior")
        tot = support_totals(cnt, n)
        key = frozenset(int(x) for x in g2)
        if key not in tot or not (abs(float(spm) - float(tot[key])) <= 1e-9) or \
                (key not in top_keys(tot)[0] and not top_keys(tot)[2]):
            chk.violation("pedigree individual: support probability / mode support differ from the sample's retained rows",
                          {**case, "impl": [[int(x) for x in g2], float(p2), float(spm)]}, "C14/pedigree/mode")
        exp_c = {a: Fraction(sum(g.count(a) for ch in rows for g in ch[burn:]), n) for a in used}
        if len(fr) != n_allele or any(not exact_eq(co[a], exp_c[a]) for a in used) or not C.close(float(np.sum(co)), float(p)):
            chk.violation("pedigree individual: posterior allele counts differ from the sample's retained rows", case, "C14/pedigree/frequencies")


def structured_supports(ploidy):
    """pairs of chains with prescribed mode supports: (genotype of chain 1, genotype of chain 2) as allele indices"""
    out = []
    for k1 in range(1, ploidy + 1):
        for k2 in range(1, ploidy + 1):
            for shared in range(0, min(k1, k2) + 1):
                s1 = list(range(k1))
                s2 = list(range(k1 - shared, k1 - shared + k2))
                g1 = s1 + [s1[0]] * (ploidy - k1)
                g2 = s2 + [s2[-1]] * (ploidy - k2)
                out.append((g1, g2))
    return out


def sampler_sorted_oracle(chk, r):
    """the calling sampler stores sorted rows (the assumption under which the call classes count multisets)"""
    from mchap.calling.classes import CallingMCMC
    for _ in range(3):
        n_base, ploidy = r.randint(1, 3), r.choice([2, 4])
        haps = np.array(sorted({tuple(r.randrange(2) for _ in range(n_base)) for _ in range(6)}), dtype=np.int8)
        reads = np.zeros((4, n_base, 2))
        for i in range(4):
            h = haps[r.randrange(len(haps))]
            for j in range(n_base):
                reads[i, j, h[j]] = 0.9; reads[i, j, 1 - h[j]] = 0.1
        tr = CallingMCMC(ploidy=ploidy, haplotypes=haps, steps=30, chains=2, random_seed=r.randrange(10 ** 6)).fit(
            reads, np.ones(4, dtype=np.int64))
        g = tr.genotypes
        chk.count("sampler-stores-sorted")
        if (np.diff(g, axis=-1) < 0).any():
            chk.violation("calling mcmc_sampler stores an unsorted genotype row (the call trace classes count rows, not multisets)",
                          {"genotypes": g.tolist()}, "C14/call/sampler-unsorted")


# --------------------------------------------------------------------------------------
# program level: the application glue between the samplers and the VCF columns
# --------------------------------------------------------------------------------------

PATTERNS = ("agree-then-differ", "differ-then-agree", "random")


def synth_regimes(r, n_chains, n_steps, switch, pattern, pool):
    """per chain a list of `n_steps` indices into `pool` (>= 4 genotypes): before step `switch` a chain follows its
    first regime, afterwards its second (85 % the regime's genotype, otherwise any genotype of the pool)"""
    k = len(pool)
    out = []
    for c in range(n_chains):
        own = 1 + (c % (k - 1))
        if pattern == "agree-then-differ":
            pre, post = 0, own
        elif pattern == "differ-then-agree":
            pre, post = own, 0
        else:
            pre = post = r.randrange(k)
        out.append([(pre if i < switch else post) if r.random() < 0.85 else r.randrange(k) for i in range(n_steps)])
    return out


class Spy:
    """Observes what the sampler hands to the program and what the program hands to the record formatter.

    `<Sampler>.fit` is wrapped: the FULL trace it returns is recorded (a copy), optionally it is replaced by a
    synthetic trace of the same class and shape (chains that agree during the burn-in and differ afterwards, or the
    other way round).  `LocusAssemblyData.format_vcf_record` is wrapped: the traces fitted since the previous
    record belong to this record; the internal per-sample values are stored next to them."""

    def __init__(self, program, burn, pattern, r):
        self.program, self.burn, self.pattern, self.r = program, burn, pattern, r
        self.pending, self.records = [], []

    def __enter__(self):
        from mchap.application import baseclass
        from mchap.assemble.mcmc import DenovoMCMC
        from mchap.assemble.classes import GenotypeMultiTrace
        from mchap.calling.classes import CallingMCMC, GenotypeAllelesMultiTrace
        from mchap.pedigree.classes import PedigreeCallingMCMC, PedigreeAllelesMultiTrace
        spy, r = self, self.r
        self._cls = {"assemble": DenovoMCMC, "call": CallingMCMC, "call-pedigree": PedigreeCallingMCMC}[self.program]
        self._fit = self._cls.fit
        self._data = baseclass.LocusAssemblyData
        self._fmt = self._data.format_vcf_record
        orig = self._fit

        def fit_asm(model, reads, read_counts=None, initial=None):
            if spy.pattern and reads.shape[1] > 0:
                n_alleles = [int(x) for x in model.n_alleles]
                haps = [tuple([0] * len(n_alleles))]
                for _ in range(40):
                    if len(haps) >= 4:
                        break
                    h = tuple(r.randrange(n) for n in n_alleles)
                    if h not in haps:
                        haps.append(h)
                pool = [[r.choice(haps) for _ in range(model.ploidy)] for _ in range(4)]
                plan = synth_regimes(r, model.chains, model.steps, spy.burn, spy.pattern, pool)
                g = np.zeros((model.chains, model.steps, model.ploidy, len(n_alleles)), dtype=np.int8)
                for c, ch in enumerate(plan):
                    for i, k in enumerate(ch):
                        gg = list(pool[k]); r.shuffle(gg)
                        g[c, i] = gg
                tr = GenotypeMultiTrace(g, np.zeros(g.shape[:2]))
            else:
                tr = orig(model, reads, read_counts=read_counts, initial=initial)
            spy.pending.append({"genotypes": np.array(tr.genotypes, copy=True), "synthetic": bool(spy.pattern and reads.shape[1] > 0),
                                "chains": int(model.chains), "steps": int(model.steps)})
            return tr

        def fit_call(model, reads, read_counts=None, initial=None):
            n_hap = len(model.haplotypes)
            if spy.pattern and reads.shape[1] > 0:
                pool = [sorted(r.randrange(n_hap) for _ in range(model.ploidy)) for _ in range(4)]
                plan = synth_regimes(r, model.chains, model.steps, spy.burn, spy.pattern, pool)
                g = np.array([[pool[k] for k in ch] for ch in plan], dtype=np.int8 if n_hap <= 127 else np.int16)
                tr = GenotypeAllelesMultiTrace(g, np.full(g.shape[:2], np.nan), n_hap)
            else:
                tr = orig(model, reads, read_counts=read_counts, initial=initial)
            spy.pending.append({"genotypes": np.array(tr.genotypes, copy=True), "synthetic": bool(spy.pattern and reads.shape[1] > 0),
                                "n_hap": n_hap, "chains": int(model.chains), "steps": int(model.steps)})
            return tr

        def fit_ped(model, sample_reads, sample_read_counts, initial=None):
            n_hap = len(model.haplotypes)
            pl = [int(x) for x in model.sample_ploidy]
            if spy.pattern and sample_reads.shape[2] > 0:
                g = np.full((model.chains, model.steps, len(pl), max(pl)), -1, dtype=np.int16)
                for j, p in enumerate(pl):
                    pool = [sorted(r.randrange(n_hap) for _ in range(p)) for _ in range(4)]
                    plan = synth_regimes(r, model.chains, model.steps, spy.burn, spy.pattern, pool)
                    for c, ch in enumerate(plan):
                        for i, k in enumerate(ch):
                            g[c, i, j, :p] = pool[k]
                tr = PedigreeAllelesMultiTrace(g, n_allele=n_hap)
            else:
                tr = orig(model, sample_reads=sample_reads, sample_read_counts=sample_read_counts, initial=initial)
            spy.pending.append({"genotypes": np.array(tr.genotypes, copy=True), "synthetic": bool(spy.pattern and sample_reads.shape[2] > 0),
                                "n_hap": n_hap, "ploidies": pl, "chains": int(model.chains), "steps": int(model.steps)})
            return tr

        def fmt(data):
            loc = data.locus
            offs = [int(p) - int(loc.start) for p in loc.positions]
            spy.records.append({
                "key": (loc.contig, int(loc.start) + 1), "fits": spy.pending, "samples": list(data.samples),
                "ploidy": [int(data.sample_ploidy[s]) for s in data.samples],
                "offsets": offs, "snv_alleles": [tuple(a) for a in loc.alleles],
                "info": {f.id: v for f, v in data.infodata.items()},      # all internal values, requested or not
                "format": {f.id: [data.sampledata[f].get(s) for s in data.samples] for f in data.formatfields},
            })
            spy.pending = []
            return spy._fmt(data)

        self._cls.fit = {"assemble": fit_asm, "call": fit_call, "call-pedigree": fit_ped}[self.program]
        self._data.format_vcf_record = fmt
        return self

    def __exit__(self, *a):
        self._cls.fit = self._fit
        self._data.format_vcf_record = self._fmt


def _num(t):
    return None if t in (".", "", None) else float(t)


def check_program_sample(chk, program, case, chains, burn, thr, ploidy, kind, got, txt, freq=None):
    """one sample of one record: `chains` = the FULL recorded trace as lists of genotypes in the record's allele space
    (assemble: tuples of haplotype tuples; callers: tuples of allele numbers); `got` = internal values handed to the
    formatter, `txt` = the printed sample column.  Everything is recomputed from `chains` with exactly `burn` steps
    removed from every chain."""
    canon = lambda g: tuple(sorted(g))
    sig = f"C14/cli-{program}/"
    cnt, n = empirical(chains, burn, canon)
    expected = {g: Fraction(k, n) for g, k in cnt.items()}
    tot = support_totals(cnt, n)
    stops, smax, smargin = top_keys(tot)
    chk.case(["cli", program, case["record"][:300], case["sample"], burn, thr], len(cnt) >= 2)
    # ---- SPM / GPM / GT
    spm, gpm, gt = got.get("SPM"), got.get("GPM"), got.get("GT")
    if spm is None or not (abs(float(spm) - float(smax)) <= 1e-9):
        chk.violation(f"{program}: SPM is not the largest total probability of a set of distinct alleles over the retained steps "
                      f"(trace minus exactly {burn} steps per chain)", {**case, "SPM": spm, "expected": str(smax)}, sig + "SPM")
    opts = {}
    for key in (tot if smargin else stops):
        if smargin and abs(float(tot[key]) - float(smax)) >= 1e-9:
            continue
        inside = {g: p for g, p in expected.items() if frozenset(g) == key}
        gtops, gmax, _ = top_keys(inside)
        for g in gtops:
            opts[g] = gmax
    if gpm is None or not any(exact_eq(gpm, p) for p in opts.values()):
        chk.violation(f"{program}: GPM is not the probability of the most probable genotype of the mode support over the retained steps",
                      {**case, "GPM": gpm, "expected": sorted({str(p) for p in opts.values()})}, sig + "GPM")
    if gt is not None:
        if gt not in opts or not exact_eq(gpm if gpm is not None else -1.0, opts[gt]):
            chk.violation(f"{program}: GT is not a most probable genotype of the mode support of the retained steps (or GPM is not its probability)",
                          {**case, "GT": str(gt), "GPM": gpm, "candidates": {str(k): str(v) for k, v in list(opts.items())[:6]}}, sig + "GT")
    else:
        chk.count(f"cli:{program}:GT-with-unlisted-haplotype(not compared)")
    # ---- MCI
    flag = got.get("MCI")
    n_steps = len(chains[0])
    exact_ok = pow2(n_steps - burn) and dyadic(thr)
    allowed = documented_flags(chains, burn, Fraction(thr), ploidy, canon, kind, exact_ok)
    chk.count(f"cli:{program}:MCI={flag}")
    if allowed is None:
        chk.count(f"cli:{program}:incongruence-float-margin(not compared)")
    elif flag is None or int(flag) not in allowed:
        chk.violation(f"{program}: MCI differs from the chain incongruence of the retained steps (trace minus exactly {burn} steps per chain; "
                      "0 = at most one distinct qualifying chain mode, 2 = union of the modes' alleles exceeds the ploidy, else 1)",
                      {**case, "MCI": flag, "documented": sorted(allowed)},
                      SIG_F10 if (program == "assemble" and flag == 2 and 2 not in allowed) else sig + "MCI")
    else:
        chk.count(f"cli:{program}:MCI-compared expected={sorted(allowed)}")
    # ---- allele frequencies / counts / occurrence
    if freq is not None:
        alleles, afp, acp, aop = freq
        for i, a in enumerate(alleles):
            e_c = Fraction(sum(g.count(a) for ch in chains for g in ch[burn:]), n)
            e_o = Fraction(sum(1 for ch in chains for g in ch[burn:] if a in g), n)
            bad = []
            if afp is not None and not (abs(float(afp[i]) - float(e_c / ploidy)) <= 1e-9):
                bad.append(("AFP", float(afp[i]), float(e_c / ploidy)))
            if acp is not None and not (abs(float(acp[i]) - float(e_c)) <= 1e-9 * max(1, ploidy)):
                bad.append(("ACP", float(acp[i]), float(e_c)))
            if aop is not None and not (abs(float(aop[i]) - float(e_o)) <= 1e-9):
                bad.append(("AOP", float(aop[i]), float(e_o)))
            if bad:
                chk.violation(f"{program}: {bad[0][0]} of allele {i} is not the functional of the retained steps",
                              {**case, "allele": i, "impl_vs_expected": bad}, sig + "frequencies")
                break
        chk.count(f"cli:{program}:frequencies-compared")
    # ---- the printed column (3 decimals)
    tol = 0.0005 + 1e-9
    t_spm, t_gpm, t_mci = _num(txt.get("SPM")), _num(txt.get("GPM")), txt.get("MCI")
    if t_spm is None or not (abs(t_spm - float(smax)) <= tol) or t_gpm is None or not any(abs(t_gpm - float(p)) <= tol for p in opts.values()):
        chk.violation(f"{program}: printed SPM / GPM differ from the functionals of the retained steps",
                      {**case, "text": {k: txt.get(k) for k in ("GT", "GPM", "SPM", "MCI")}, "SPM_expected": float(smax),
                       "GPM_expected": sorted({float(p) for p in opts.values()})}, sig + "text")
    if allowed is not None and (t_mci is None or not t_mci.isdigit() or int(t_mci) not in allowed):
        if not (program == "assemble" and t_mci == "2" and 2 not in allowed):      # F10 is reported once, above
            chk.violation(f"{program}: printed MCI differs from the chain incongruence of the retained steps",
                          {**case, "text_MCI": t_mci, "documented": sorted(allowed)}, sig + "text-MCI")


def program_runs(chk, r, S, ds, work, program, base_argv, n_runs, k0=0):
    """run one program `n_runs` times with varying burn-in / chains / threshold / synthetic traces and compare"""
    combos = [(40, 39, 3), (40, 10, 3), (40, 0, 1), (40, 30, 2), (40, 39, 2), (40, 10, 1), (64, 32, 3), (40, 0, 3)]
    pats = PATTERNS + (None,)
    for k in range(k0, k0 + n_runs):
        steps, burn, chains = combos[k % len(combos)]
        pattern = pats[(k + k // len(combos)) % len(pats)]
        thr = [0.6, 0.3, 0.9, 0.5][k % 4]
        rep = ["AFP", "ACP", "AOP"] if k % 2 == 0 else (["GP"] if k % 4 == 1 else [])
        argv = base_argv + ["--mcmc-steps", str(steps), "--mcmc-burn", str(burn), "--mcmc-chains", str(chains),
                            "--mcmc-chain-incongruence-threshold", str(thr), "--mcmc-seed", str(r.randrange(1, 10 ** 6))]
        if rep:
            argv += ["--report", *rep]
        tag = {"program": program, "steps": steps, "burn": burn, "chains": chains, "threshold": thr, "traces": pattern or "sampler",
               "report": rep, "seed": C.seed()}
        with Spy(program, burn, pattern, r) as spy:
            out, code, err = S.run_program(argv)
        chk.count(f"cli:{program}:runs"); chk.count(f"cli:{program}:traces={pattern or 'sampler'}")
        chk.count(f"cli:burn={burn}/steps={steps}/chains={chains}")
        if code != 0:
            chk.violation(f"mchap {program} raised: {err[:300]}", {**tag, "error": err[:1500]}, f"C14/cli-{program}/crash")
            continue
        _, recs = S.parse_vcf_text(out)
        if len(recs) != len(spy.records):
            chk.violation(f"{program}: {len(recs)} records printed, {len(spy.records)} formatted", tag, f"C14/cli-{program}/records")
            continue
        for rec, cap in zip(recs, spy.records):
            fits = cap["fits"]
            n_s = len(cap["samples"])
            if not fits:
                chk.count(f"cli:{program}:record-without-sampler-call")
                continue
            if (program == "call-pedigree" and len(fits) != 1) or (program != "call-pedigree" and len(fits) != n_s):
                chk.violation(f"{program}: {len(fits)} sampler calls for a record with {n_s} samples", {**tag, "record": rec["line"][:300]},
                              f"C14/cli-{program}/fits")
                continue
            F = cap["format"]
            n_all = 1 + len(rec["ALT"])
            if program == "assemble":
                # haplotype (allele numbers per SNV) of every listed allele
                seqs = [rec["REF"]] + rec["ALT"]
                try:
                    listed = [tuple(al.index(sq[o]) for o, al in zip(cap["offsets"], cap["snv_alleles"])) for sq in seqs]
                except (ValueError, IndexError):
                    chk.violation("assemble: a listed allele uses a base that is not an allele of the input variant", {**tag, "record": rec["line"][:300]},
                                  "C14/cli-assemble/alleles")
                    continue
                labels = None
            else:
                prior = cap["info"].get("AFPRIOR")
                masked = bool(cap["info"].get("REFMASKED"))
                if prior is None or isinstance(prior, dict) or len(prior) != n_all:
                    chk.violation(f"{program}: the internal prior frequencies do not have one entry per listed allele", {**tag, "record": rec["line"][:300]},
                                  f"C14/cli-{program}/labels")
                    continue
                keep = [i for i in range(n_all) if not (float(prior[i]) == 0.0 or (i == 0 and masked))]
                labels = keep if len(keep) != n_all else list(range(n_all))
                if len(labels) != fits[0]["n_hap"]:
                    chk.violation(f"{program}: the sampler ran on {fits[0]['n_hap']} haplotypes, the record keeps {len(labels)} (prior > 0, reference not masked)",
                                  {**tag, "record": rec["line"][:300]}, f"C14/cli-{program}/labels")
                    continue
                if len(labels) != n_all:
                    chk.count(f"cli:{program}:relabelled-record")
            for j, sname in enumerate(cap["samples"]):
                p = cap["ploidy"][j]
                fit = fits[0] if program == "call-pedigree" else fits[j]
                g = fit["genotypes"]
                if g.shape[0] != chains or g.shape[1] != steps:
                    chk.violation(f"{program}: the trace has shape {g.shape[:2]}, requested chains x steps = {chains} x {steps}",
                                  {**tag, "record": rec["line"][:300]}, f"C14/cli-{program}/trace-shape")
                    break
                if program == "assemble":
                    rows = [[tuple(tuple(int(x) for x in h) for h in st) for st in ch] for ch in g]
                    kind = "asm"
                    if g.shape[3] == 0:
                        chk.count("cli:assemble:n_base=0")
                elif program == "call":
                    rows = [[tuple(labels[int(a)] for a in st) for st in ch] for ch in g]
                    kind = "call"
                else:
                    rows = [[tuple(labels[int(a)] for a in st[j][:p]) for st in ch] for ch in g]
                    kind = "call"
                    if any(a < 0 for st in g[0][:1] for a in st[j][:p]) or any(a >= 0 for a in g[0][0][j][p:]):
                        chk.count("cli:call-pedigree:unexpected-padding")
                if any(len(st) != p for ch in rows for st in ch):
                    chk.violation(f"{program}: a step of the trace does not have the sample's ploidy", {**tag, "sample": sname}, f"C14/cli-{program}/ploidy")
                    continue
                gt_arr = F["GT"][j]
                gt_i = [int(a) for a in gt_arr]
                if program == "assemble":
                    gt = tuple(sorted(listed[a] for a in gt_i)) if all(0 <= a < n_all for a in gt_i) else None
                    alleles = listed
                else:
                    gt = tuple(sorted(gt_i))
                    alleles = list(range(n_all))
                got = {"GT": gt, "GPM": F["GPM"][j], "SPM": F["SPM"][j], "MCI": F["MCI"][j]}
                freq = None
                if "AFP" in F:
                    freq = (alleles, F["AFP"][j], F["ACP"][j] if "ACP" in F else None, F["AOP"][j] if "AOP" in F else None)
                    if any(len(x) != n_all for x in freq[1:] if x is not None):
                        chk.violation(f"{program}: AFP/ACP/AOP do not have one entry per listed allele", {**tag, "record": rec["line"][:300]},
                                      f"C14/cli-{program}/frequencies")
                        freq = None
                case = {**tag, "record": rec["line"][:400], "sample": sname, "ploidy": p, "synthetic": fit["synthetic"],
                        "trace": [[str(st) for st in ch] for ch in rows] if steps * chains <= 200 else "large"}
                try:
                    check_program_sample(chk, program, case, rows, burn, thr, p, kind, got, rec["samples"][j], freq)
                except Exception as e:   # noqa: BLE001
                    chk.violation(f"{program}: summaries of a recorded trace could not be evaluated ({e!r})", case, f"C14/cli-{program}/raises")
                # GP: entry at the VCF index of a fully listed genotype = its relative frequency
                if "GP" in F and F["GP"][j] is not None and np.ndim(F["GP"][j]) == 1 and len(F["GP"][j]) > 1:
                    gp = F["GP"][j]
                    cnt, n = empirical(rows, burn, lambda x: tuple(sorted(x)))
                    size = math.comb(n_all + p - 1, p)
                    exp = {}
                    for gg, kk in cnt.items():
                        if program == "assemble":
                            if any(h not in listed for h in gg):
                                continue
                            if "REFMASKED" in rec["INFO"] and listed[0] in gg:
                                continue
                            idx = vcf_index([listed.index(h) for h in gg])
                        else:
                            idx = vcf_index(list(gg))
                        exp[idx] = Fraction(kk, n)
                    chk.count(f"cli:{program}:GP-compared")
                    if len(gp) != size or any(not exact_eq(gp[i], exp.get(i, Fraction(0))) for i in range(size)):
                        chk.violation(f"{program}: GP is not the G-ordered array of the relative frequencies of the retained steps",
                                      {**case, "GP": [float(x) for x in gp][:60], "expected": {k: str(v) for k, v in exp.items()}},
                                      f"C14/cli-{program}/GP")


def cli_part(chk, r, tier):
    import os
    import shutil
    import tempfile
    from . import synth as S
    from .c07 import add_prior_field, pedigree_file
    work = tempfile.mkdtemp(prefix="verif-c14-")
    n_ds = {"warm": 1, "quick": 1, "thorough": 4}[tier]
    n_asm, n_call, n_ped = {"warm": (2, 1, 1), "quick": (8, 6, 6), "thorough": (16, 12, 12)}[tier]
    try:
        for d in range(n_ds):
            sub = C.rng(f"{PROP}:cli{d}")
            ds = S.make_dataset(sub, os.path.join(work, f"ds{d}"), n_samples=3, n_loci=3, ploidies=(2, 4) if d % 2 == 0 else (2, 3, 4),
                                max_snvs=3, features={"nodepth"}, depth=(6, 14))
            program_runs(chk, r, S, ds, work, "assemble", ds.assemble_argv(), n_asm)
            out, code, err = S.run_program(ds.assemble_argv("--mcmc-steps", "200", "--mcmc-burn", "80"))
            if code != 0:
                chk.violation(f"mchap assemble raised: {err[:300]}", {"error": err[:1500]}, "C14/cli-assemble/crash")
                continue
            pf_text, _ = add_prior_field(sub, out, "mixed")
            hap_gz = S.bgzip_tabix_vcf(S.write_text(os.path.join(work, f"hap{d}.vcf"), pf_text))
            base = ["--bam", *ds.bams, "--ploidy", ds.ploidy_file, "--haplotypes", hap_gz]
            for j, prior in enumerate(([], ["--prior-frequencies", "PF"])):
                program_runs(chk, r, S, ds, work, "call", ["mchap", "call", *base, *prior], n_call // 2, k0=j * (n_call // 2))
                ped, tau = pedigree_file(sub, ds, work, f"c14_{d}")
                program_runs(chk, r, S, ds, work, "call-pedigree",
                             ["mchap", "call-pedigree", *base, "--sample-parents", ped, "--gamete-ploidy", tau, *prior], n_ped // 2,
                             k0=j * (n_ped // 2) + 1)
    finally:
        shutil.rmtree(work, ignore_errors=True)


def run(tier, replay=None):
    from mchap.assemble.classes import GenotypeMultiTrace
    from mchap.calling.classes import GenotypeAllelesMultiTrace
    from mchap.pedigree.classes import PedigreeAllelesMultiTrace

    chk = C.Check(PROP, tier, MODULE, THEOREMS, RULE, assumptions=[
        "probabilities are count / total in float64: compared exactly against k/N; float sums (support probability, assemble allele "
        "frequencies) at rel 1e-9; a threshold within 1e-9 of a compared total is counted and not compared",
        "np.argsort / np.argmax tie order is not modelled: ties are compared as sets",
        "the call / call-pedigree trace classes count stored rows; they are multiset counts because the samplers store sorted rows "
        "(calling compound_step sorts — model of C02; checked here on sampler output)",
        "numba's unchecked indexing (allele >= n_allele in posterior_frequencies / as_array) is outside the generated domain",
    ], exe="driver_sum")
    chk.prove()
    drv = C.Driver("driver_sum")
    r = C.rng(PROP)
    n_asm, n_call, n_small = {"warm": (3, 3, 2), "quick": (110, 110, 40), "thorough": (1100, 1100, 400)}[tier]

    # ---------------- assemble family
    for i in range(n_asm):
        n_chains, n_steps, ploidy = gen_shape(r, tier)
        n_base, n_nucl = r.randint(1, 4), r.choice([2, 2, 3])
        pool = gen_pool(r, n_base, n_nucl, r.randint(2, 5))
        if len(pool) < 2:
            pool = pool + [tuple([pool[0][0] ^ 1] + list(pool[0][1:]))]
        chains = gen_steps(r, n_chains, n_steps, ploidy, len(pool))
        burns = list(range(0, n_steps + 1))
        run_asm_trace(chk, drv, r, chains, pool, ploidy, n_base, burns, "random", GenotypeMultiTrace)
    # wide loci (more than 32 / 64 variable positions, up to five symbols per position): haplotypes that differ in the leading
    # columns only, or in the last column only, still are different haplotypes and one unordered genotype is one state
    for i in range({"warm": 1, "quick": 12, "thorough": 80}[tier]):
        n_chains, n_steps, ploidy = gen_shape(r, tier)
        n_steps = min(n_steps, 8)
        n_base, n_nucl = r.choice([33, 40, 64, 65, 70, 130]), r.choice([2, 3, 5])
        base = [r.randrange(n_nucl) for _ in range(n_base)]
        pool = [tuple(base)]
        for _ in range(r.randint(2, 4)):
            h = list(base)
            if r.random() < 0.7:
                for j in r.sample(range(0, n_base - 32), min(n_base - 32, r.randint(1, 2))):       # leading columns only
                    h[j] = (h[j] + r.randint(1, n_nucl - 1)) % n_nucl
            else:
                h[-1] = (h[-1] + r.randint(1, n_nucl - 1)) % n_nucl              # last column only
            if tuple(h) not in pool:
                pool.append(tuple(h))
        if len(pool) < 2:
            continue
        chains = gen_steps(r, n_chains, n_steps, ploidy, len(pool))[:n_chains]
        chains = [ch[:n_steps] for ch in chains]
        chk.count("assemble:wide-locus")
        run_asm_trace(chk, drv, r, chains, pool, ploidy, n_base, [0, n_steps // 2], "wide", GenotypeMultiTrace)
    # structured supports: both chain orders, thresholds 0.6 (all chains qualify)
    pool = [(0, 0, 0), (0, 0, 1), (0, 1, 0), (0, 1, 1), (1, 0, 0), (1, 0, 1), (1, 1, 0), (1, 1, 1), (2, 0, 0), (2, 0, 1), (2, 1, 0), (2, 1, 1)]
    for ploidy in ((2, 4) if tier != "thorough" else (2, 3, 4, 6)):
        pairs = structured_supports(ploidy)
        if tier == "warm":
            pairs = pairs[:3]
        for g1, g2 in pairs:
            for order in ((g1, g2), (g2, g1)):
                chains = []
                for g in order:
                    ch = []
                    for s in range(4):
                        gg = list(g); r.shuffle(gg); ch.append(gg)
                    chains.append(ch)
                run_asm_trace(chk, drv, r, chains, pool, ploidy, 3, [0, 2], "structured", GenotypeMultiTrace, thr_override=[0.6])
                cs = [[sorted(g) for g in ch] for ch in chains]
                run_call_trace(chk, drv, r, cs, 12, ploidy, [0], True, "structured", GenotypeAllelesMultiTrace, thr_override=[0.6])

    # ---------------- call family
    for i in range(n_call):
        n_chains, n_steps, ploidy = gen_shape(r, tier)
        k = r.randint(2, 5)
        chains = gen_steps(r, n_chains, n_steps, ploidy, k)
        sorted_rows = r.random() < 0.8
        if sorted_rows:
            chains = [[sorted(g) for g in ch] for ch in chains]
        n_allele = k + r.choice([0, 0, 1, 3])
        burns = list(range(0, n_steps + 1))
        run_call_trace(chk, drv, r, chains, n_allele, ploidy, burns, sorted_rows, "random", GenotypeAllelesMultiTrace)

    # ---------------- call family, large haplotype panels (allele indices well above 64)
    for i in range(max(2, n_call // 6)):
        n_chains, n_steps, _p = gen_shape(r, tier)
        ploidy = r.choice([1, 2, 2])
        k = r.randint(2, 5)
        n_allele = r.choice([70, 100, 130, 200])
        amap = sorted(r.sample(range(n_allele), k)) if r.random() < 0.3 else sorted(r.sample(range(60, n_allele), k))
        chains = [[sorted(amap[a] for a in g) for g in ch] for ch in gen_steps(r, n_chains, n_steps, ploidy, k)]
        burns = sorted({0, n_steps // 2, max(0, n_steps - 1)})
        run_call_trace(chk, drv, r, chains, n_allele, ploidy, burns, True, "large-panel", GenotypeAllelesMultiTrace)

    # ---------------- call family, large panels at ploidy 3-4 (alleles >= 64 and >= 128; the model sees rank-compressed alleles)
    r4 = C.rng(PROP + ":large-panel-polyploid")
    for i in range({"warm": 2, "quick": 10, "thorough": 60}[tier]):
        n_chains, n_steps, _p = gen_shape(r4, tier)
        ploidy = 3 if i % 2 == 0 else 4
        k = r4.randint(2, 5)
        n_allele = [70, 140, 200][(i // 2) % 3] if ploidy == 3 else [133, 70, 100][(i // 2) % 3]
        lo = 64 if n_allele < 128 else 128
        amap = sorted(r4.sample(range(lo, n_allele), k)) if i % 5 else sorted(r4.sample(range(n_allele), k - 1) + [n_allele - 1])
        amap = sorted(set(amap))
        chains = [[sorted(amap[a] for a in g) for g in ch] for ch in gen_steps(r4, n_chains, n_steps, ploidy, len(amap))]
        burns = sorted({0, n_steps // 2, max(0, n_steps - 1)})
        chk.count(f"call:large-panel ploidy={ploidy} max-allele>={128 if amap[-1] >= 128 else 64}")
        run_call_trace(chk, drv, r4, chains, n_allele, ploidy, burns, True, "large-panel-polyploid", GenotypeAllelesMultiTrace, compress=True)

    # ---------------- long traces: one genotype repeated far more than 255 times (both families)
    r2 = C.rng(PROP + ":long")
    for i in range({"warm": 1, "quick": 3, "thorough": 12}[tier]):
        n_chains, n_steps, ploidy = 1 + i % 2, r2.choice([700, 600, 1100]), r2.choice([2, 3, 4])
        k = r2.randint(2, 4)
        dom = [r2.randrange(k) for _ in range(ploidy)]
        chains = []
        for c in range(n_chains):
            ch = []
            for _ in range(n_steps):
                g = list(dom)
                if r2.random() < 0.08:
                    g[r2.randrange(ploidy)] = r2.randrange(k)
                r2.shuffle(g)
                ch.append(g)
            chains.append(ch)
        top = max(Counter(tuple(sorted(g)) for ch in chains for g in ch).values())
        chk.count("long-trace: most frequent genotype repeats > 255 times" if top > 255 else "long-trace: <= 255 repeats")
        burns = [0, n_steps - 300, n_steps - 257, n_steps - 1]
        pool = gen_pool(r2, 2, 3, k)
        if len(pool) == k:
            run_asm_trace(chk, drv, r2, chains, pool, ploidy, 2, burns, "long", GenotypeMultiTrace, thr_override=[0.6])
        run_call_trace(chk, drv, r2, [[sorted(g) for g in ch] for ch in chains], k + 1, ploidy, burns, True, "long", GenotypeAllelesMultiTrace,
                       thr_override=[0.6])

    run_asm_nobase(chk, C.rng(PROP + ":nobase"), {"warm": 2, "quick": 12, "thorough": 60}[tier], GenotypeMultiTrace)
    run_relabel(chk, drv, r, n_small, GenotypeAllelesMultiTrace)
    run_relabel_summaries(chk, C.rng(PROP + ":relabel-summaries"), n_small, GenotypeAllelesMultiTrace)
    run_ped(chk, drv, r, n_small, PedigreeAllelesMultiTrace)
    run_ped_wide(chk, C.rng(PROP + ":ped-wide"), n_small, PedigreeAllelesMultiTrace)
    if tier != "warm":
        sampler_sorted_oracle(chk, r)
    cli_part(chk, C.rng(PROP + ":cli"), tier)
    return chk.finish()
