"""C06 — read extraction = the filtered pileup.

Correspondence: `mchap.io.bam.extract_read_variants(..., read_dicts=True)` and
`mchap.application.baseclass.program.encode_sample_reads` (options parsed by the real `assemble` CLI parser, pools,
error rate, phred scores) on BAM files written from known `ReadSpec`s, against the Lean model (`Model/Reads.lean`) fed
the same records; FORMAT DP / RCOUNT / RCALLS / SNVDP of `mchap assemble` stdout against the model.

Implementation oracles (the property statement evaluated independently of the model, set-based instead of
sequential): rows, cells and statistics recomputed straight from the ReadSpecs; reference consistency
(SNV file vs FASTA, MD-derived reference vs SNV file) must give an error, never a matrix.
"""
from __future__ import annotations

import math
import os
import shutil
import tempfile
from fractions import Fraction

import numpy as np

from . import common as C
from . import synth as S

PROP = "C06"
MODULE = "MCHap.Properties.C06"
THEOREMS = [
    "MCHap.C06.passes_iff",
    "MCHap.C06.rows_iff",
    "MCHap.C06.rows_order",
    "MCHap.C06.rows_unselected",
    "MCHap.C06.cell_spec",
    "MCHap.C06.used_calls_ok",
    "MCHap.C06.calls_spec",
    "MCHap.C06.mergeChar_spec",
    "MCHap.C06.merge_order_independent",
    "MCHap.C06.filter_monotone",
    "MCHap.C06.stats_consistent",
    "MCHap.C06.uniqueCounts_spec",
    "MCHap.C06.dp_round",
    "MCHap.C06.ref_mismatch_is_error",
    "MCHap.C06.validateRef_ok_iff",
    "MCHap.C06.pairs_spec",
]
RULE = ("cases: (BAM written from known ReadSpecs) x locus x (read-group field, MAPQ threshold, 3 keep flags, sample selection); "
        "synthetic datasets with random feature subsets, hand-built boundary BAMs (flag combinations, MAPQ at threshold +-1, "
        "1..3 alignments per read name, fetch-window edges, I/D/N/S/H/=/X CIGARs), error streams (no RG / no MD / no qualities / "
        "reference mismatches), padding CIGARs. Non-trivial: an indel / clip / skip op inside the locus window AND a read name "
        "with >= 2 passing alignments AND a fetched record removed by the filters. Distinct by canonical request line. "
        "WP3 streams (harness/wp3_c06.py): sample / read-group / read names that are substrings of each other, >= 3 alignments per "
        "name with phred scores; data sets through the real assemble / call-exact parsers with --bam as paths / list file / "
        "sample-path pairs, CRAM, soft-masked FASTA, BED gzipped / with '#' lines / 3 columns, --variants with split multi-allelic "
        "sites, indel / MNP / ALT-less records and a deletion starting before the window, extraction through a LocusPrior.")

UNMAPPED, SECONDARY, QCFAIL, DUP, SUPP = 0x4, 0x100, 0x200, 0x400, 0x800


# --------------------------------------------------------------------------------------
# protocol encoding (shared with c19)
# --------------------------------------------------------------------------------------

def _name(s: str) -> str:
    if not s or s in ("*", "-") or any(ch.isspace() for ch in s):
        raise C.Infra(f"name not encodable in the line protocol: {s!r}")
    return s


def tok_locus(contig, start, stop, positions, alleles) -> list:
    t = [_name(contig), str(start), str(stop), str(len(positions))]
    for p, als in zip(positions, alleles):
        t += [str(p), "".join(als) or "*"]
    return t


def tok_opts(id_field, minq, skip_dup, skip_qc, skip_supp, samples) -> list:
    samples = list(samples or [])
    return [id_field, str(minq), str(int(skip_dup)), str(int(skip_qc)), str(int(skip_supp)), str(len(samples))] + \
        [_name(s) for s in samples]


def tok_hdr(rgs) -> list:
    t = [str(len(rgs))]
    for g in rgs:
        t += [_name(g["ID"]), _name(g["SM"])]
    return t


def has_md(spec) -> bool:
    """`synth.write_bam` writes an MD tag exactly for placed records with a CIGAR"""
    return bool(S.parse_cigar(spec.cigar)) and spec.contig is not None


class PerReadRef(dict):
    """contig -> sequence the MD tags were computed from, with another reference for the read names in `other_names`
    (a file whose alignments were made against two slightly different references)"""

    def __init__(self, default, other, other_names):
        super().__init__(default)
        self.other, self.other_names = other, set(other_names)


def ref_for(md_ref, spec):
    return md_ref.other if isinstance(md_ref, PerReadRef) and spec.qname in md_ref.other_names else md_ref


def tok_read(spec, md_ref, refbases=None, strip_md=False) -> list:
    """`md_ref`: contig -> sequence the MD tags were computed from; `refbases` overrides (padding stream)."""
    ops = S.parse_cigar(spec.cigar)
    md_ref = ref_for(md_ref, spec)
    if refbases is None:
        if strip_md or not has_md(spec):
            rb = "-"
        else:
            rb = "".join(md_ref[spec.contig][r].upper() for _, r in S.aligned_pairs(spec)) or "*"
    else:
        rb = refbases or "*"
    quals = "-" if spec.quals is None else (",".join(str(q) for q in spec.quals) or "*")
    other = spec.mate_contig is not None and spec.mate_contig != spec.contig
    return [
        _name(spec.qname), "*" if spec.contig is None else _name(spec.contig), str(spec.flag), str(spec.mapq),
        str(max(spec.pos, 0)), spec.cigar if ops else "*", spec.seq or "*", quals,
        "-" if spec.rg is None else _name(spec.rg), rb, str(spec.mate_pos), str(spec.tlen), str(int(other)),
    ]


def tok_reads(specs, md_ref, refbases=None, strip_md=False) -> list:
    t = [str(len(specs))]
    for i, s in enumerate(specs):
        t += tok_read(s, md_ref, None if refbases is None else refbases[i], strip_md)
    return t


# --------------------------------------------------------------------------------------
# the property, evaluated independently on the ReadSpecs
# --------------------------------------------------------------------------------------

class Opts:
    def __init__(self, id_field="SM", minq=20, skip_dup=True, skip_qc=True, skip_supp=True, samples=None):
        self.id_field, self.minq = id_field, minq
        self.skip_dup, self.skip_qc, self.skip_supp = skip_dup, skip_qc, skip_supp
        self.samples = samples          # None | str | list

    def sample_list(self):
        if self.samples is None:
            return []
        if isinstance(self.samples, str):
            return [self.samples]
        return list(self.samples)

    def tokens(self):
        return tok_opts(self.id_field, self.minq, self.skip_dup, self.skip_qc, self.skip_supp, self.sample_list())

    def kwargs(self):
        s = self.samples
        if isinstance(s, list):
            s = set(s)
        return dict(samples=s, id=self.id_field, min_quality=self.minq, skip_duplicates=self.skip_dup,
                    skip_qcfail=self.skip_qc, skip_supplementary=self.skip_supp)

    def describe(self):
        return {"id": self.id_field, "minq": self.minq, "skip_dup": self.skip_dup, "skip_qc": self.skip_qc,
                "skip_supp": self.skip_supp, "samples": self.samples}


def overlaps(spec, contig, start, stop) -> bool:
    return spec.contig == contig and spec.pos < stop and spec.ref_end > start


def passes_property(spec, o: Opts) -> bool:
    """mapped, MAPQ >= threshold, not duplicate / QC-fail / supplementary unless kept"""
    if spec.flag & UNMAPPED:
        return False
    if spec.mapq < o.minq:
        return False
    if (spec.flag & DUP) and o.skip_dup:
        return False
    if (spec.flag & QCFAIL) and o.skip_qc:
        return False
    if (spec.flag & SUPP) and o.skip_supp:
        return False
    return True


def oracle_rows(specs, rgs, loc, o: Opts, pairs_of=S.aligned_pairs):
    """{sample key: {qname: chars}} per the property statement (sets of bases per read name and SNV)"""
    key = {}
    for g in rgs:
        key[g["ID"]] = g[o.id_field]
    wanted = o.sample_list()
    groups = {}
    for g in rgs:
        k = g[o.id_field]
        if not wanted or k in wanted:
            groups.setdefault(k, {})
    used = []
    for s in specs:
        if not overlaps(s, loc.contig, loc.start, loc.stop) or not passes_property(s, o):
            continue
        if s.rg is None or s.rg not in key:
            continue
        k = key[s.rg]
        if wanted and k not in wanted:
            continue
        groups[k].setdefault(s.qname, []).append(s)
        used.append(s)
    rows = {}
    for k, byq in groups.items():
        rows[k] = {}
        for q, ss in byq.items():
            chars = []
            for p in loc.snv_positions:
                bases = {s.seq[qi] for s in ss for qi, r in pairs_of(s) if r == p}
                chars.append("-" if not bases else (next(iter(bases)) if len(bases) == 1 else "N"))
            rows[k][q] = "".join(chars)
    return rows, used


def merge_sorted_bams(a, b, out):
    """the records of two BAMs with the same header in one coordinate-sorted, indexed file (unplaced records last)"""
    import pysam
    with pysam.AlignmentFile(a) as fa, pysam.AlignmentFile(b) as fb:
        recs = [x for x in fa.fetch(until_eof=True)] + [x for x in fb.fetch(until_eof=True)]
        recs.sort(key=lambda x: (x.reference_id if x.reference_id >= 0 else 1 << 30, x.reference_start))
        with pysam.AlignmentFile(out, "wb", header=fa.header) as fo:
            for x in recs:
                fo.write(x)
    pysam.index(out)
    return out


def oracle_ref_conflict(used, loc, md_ref) -> bool:
    """does some used alignment cover an SNV whose REF differs from the reference base its MD tag encodes?"""
    ref_of = {p: als[0] for p, als in zip(loc.snv_positions, loc.snv_alleles) if als}
    for s in used:
        for _, r in S.aligned_pairs(s):
            if r in ref_of and ref_for(md_ref, s)[s.contig][r].upper() != ref_of[r].upper():
                return True
    return False


def round_half_even(fr: Fraction) -> int:
    f = math.floor(fr)
    d = fr - f
    if d < Fraction(1, 2):
        return f
    if d > Fraction(1, 2):
        return f + 1
    return f if f % 2 == 0 else f + 1


def oracle_stats(rows_chars: list, loc):
    """(RCOUNT, DP|None, SNVDP, RCALLS, calls) from the char rows of a sample per the property statement"""
    n = len(loc.snv_positions)
    snvdp = [sum(1 for r in rows_chars if r[j] != "-") for j in range(n)]
    dp = None if n == 0 else round_half_even(Fraction(sum(snvdp), n))
    calls = []
    for r in rows_chars:
        row = []
        for j, ch in enumerate(r):
            als = list(loc.snv_alleles[j])
            row.append(max((i for i, a in enumerate(als) if a == ch), default=-1))
        calls.append(row)
    rcalls = sum(1 for row in calls for a in row if a >= 0)
    return len(rows_chars), dp, snvdp, rcalls, calls


# --------------------------------------------------------------------------------------
# implementation side
# --------------------------------------------------------------------------------------

def error_tag(e: BaseException) -> str:
    m = str(e)
    if isinstance(e, ValueError) and "does not match alignment reference allele" in m:
        return "error:refMismatch"
    if isinstance(e, ValueError) and "MD tag not present" in m:
        return "error:noMD"
    if isinstance(e, KeyError) and "RG" in m and "not present" in m:
        return "error:noRGTag"
    if isinstance(e, KeyError):
        return "error:unknownRG"
    if isinstance(e, (TypeError, IndexError)):
        return "error:noBaseOrQual"
    return f"error:other:{type(e).__name__}:{m[:80]}"


def unwrap(e: BaseException) -> BaseException:
    """innermost cause of a SampleAssemblyError / LocusAssemblyError chain"""
    k = 0
    while e.__cause__ is not None and k < 10:
        e = e.__cause__
        k += 1
    return e


def fmt_extract(d: dict) -> str:
    """same canonical line as the driver's `c06.extract` reply (dict order = insertion order)"""
    parts = ["ok"]
    for k, reads in d.items():
        parts.append(f"{k} {len(reads)}")
        for q, (chars, quals) in reads.items():
            cs = "".join(str(c) for c in chars) or "*"
            qs = ",".join(str(int(x)) for x in quals) or "*"
            parts.append(f"{q} {cs} {qs}")
    return " ".join(parts)


class Ctx:
    """everything `run` shares with its helpers"""

    def __init__(self, chk, drv, tier):
        self.chk, self.drv, self.tier = chk, drv, tier
        self.pending = []       # (line, callback(answer))

    def ask(self, line, cb):
        self.pending.append((line, cb))

    def flush(self):
        if not self.pending:
            return
        ans = iter(self.drv.ask([l for l, _ in self.pending if l is not None]))
        for l, cb in self.pending:
            if l is None:       # a callback that only needs to run in order
                cb(None)
                continue
            a = next(ans)
            if a == "bad-op":
                raise C.Infra(f"driver answered bad-op for: {l[:300]}")
            cb(a)
        self.pending = []


def nontrivial_case(specs, loc, o: Opts) -> bool:
    f = [s for s in specs if overlaps(s, loc.contig, loc.start, loc.stop)]
    if not f:
        return False
    structural = False
    for s in f:
        r = s.pos
        for n, op in S.parse_cigar(s.cigar):
            if op in "IDNSH" and loc.start <= r <= loc.stop:
                structural = True
            if op in "MDN=X":
                r += n
    names = {}
    for s in f:
        if passes_property(s, o):
            names[s.qname] = names.get(s.qname, 0) + 1
    return structural and any(v >= 2 for v in names.values()) and any(not passes_property(s, o) for s in f)


def check_extract(ctx: Ctx, stream, bam, fasta, specs, rgs, loc, mlocus, o: Opts, md_ref, refbases=None,
                  strip_md=False, pad=False):
    """one extract_read_variants call vs model vs property oracle"""
    import pysam
    from mchap.io.bam import extract_read_variants

    chk = ctx.chk
    try:
        with pysam.AlignmentFile(bam, reference_filename=fasta) as af:
            d = extract_read_variants(mlocus, af, read_dicts=True, **o.kwargs())
        impl = fmt_extract(d)
        impl_rows = {k: {q: "".join(str(c) for c in v[0]) for q, v in reads.items()} for k, reads in d.items()}
    except Exception as e:  # noqa: BLE001
        impl = error_tag(e)
        impl_rows = None
    line = " ".join(["c06.extract"] + tok_locus(loc.contig, loc.start, loc.stop, loc.snv_positions, loc.snv_alleles)
                    + o.tokens() + tok_hdr(rgs) + tok_reads(specs, md_ref, refbases, strip_md))
    case = {"stream": stream, "locus": {"contig": loc.contig, "start": loc.start, "stop": loc.stop,
                                        "positions": loc.snv_positions, "alleles": ["".join(a) for a in loc.snv_alleles]},
            "opts": o.describe(), "read_groups": [(g["ID"], g["SM"]) for g in rgs],
            "reads": [(s.qname, s.contig, s.pos, s.cigar, s.seq, s.flag, s.mapq, s.rg) for s in specs
                      if overlaps(s, loc.contig, loc.start - 5, loc.stop + 5)]}
    chk.count(f"{stream}:extract")
    chk.count("impl:" + (impl.split(" ")[0] if impl.startswith("ok") else impl[:30]))
    chk.count(f"opts:id={o.id_field}")
    chk.count(f"opts:keep={int(not o.skip_dup)}{int(not o.skip_qc)}{int(not o.skip_supp)}")

    def cb(model, impl=impl, line=line, case=case):
        chk.case(line, nontrivial_case(specs, loc, o),
                 sample={"request": line[:400], "impl": impl[:300], "model": model[:300]})
        if impl != model:
            chk.disagreement("extract_read_variants != model", {**case, "impl": impl[:2000], "model": model[:2000]})

    ctx.ask(line, cb)

    # ---- property oracle (independent of the model)
    want_rows, used = oracle_rows(specs, rgs, loc, o)
    conflict = oracle_ref_conflict(used, loc, md_ref) if not (strip_md or pad) else False
    known_ids = {g["ID"] for g in rgs}
    other_error = strip_md or pad or any(s.rg is None or s.rg not in known_ids or s.quals is None for s in specs
                                         if overlaps(s, loc.contig, loc.start, loc.stop) and passes_property(s, o))
    if conflict:
        if impl_rows is not None:
            chk.violation("a used alignment's reference base disagrees with the SNV's REF but a matrix was returned",
                          {**case, "impl": impl[:1000]}, "C06/extract_read_variants/ref-mismatch-not-reported")
        return
    if other_error:
        return      # covered by the model comparison only (which error is raised first is an implementation detail)
    if impl_rows is None:
        chk.violation("extract_read_variants raised although the inputs are consistent",
                      {**case, "impl": impl}, "C06/extract_read_variants/spurious-error")
        return
    if list(impl_rows) != list(want_rows):
        chk.violation("samples returned differ from the selected read-group keys",
                      {**case, "impl": list(impl_rows), "expected": list(want_rows)},
                      "C06/extract_read_variants/sample-keys")
        return
    for k in want_rows:
        got, exp = impl_rows[k], want_rows[k]
        if set(got) != set(exp):
            extra, missing = sorted(set(got) - set(exp)), sorted(set(exp) - set(got))
            chk.violation("rows are not exactly the read names of the passing, overlapping alignments of the sample",
                          {**case, "sample": k, "extra": extra[:10], "missing": missing[:10]},
                          "C06/extract_read_variants/rows")
            return
        for q in exp:
            if got[q] != exp[q]:
                chk.violation("a cell is not the merged base aligned to that SNV",
                              {**case, "sample": k, "qname": q, "impl": got[q], "expected": exp[q]},
                              "C06/extract_read_variants/cell")
                return


def make_mlocus(loc, contigs):
    from mchap.io.loci import Locus as MLocus, SNP

    variants = tuple(SNP(loc.contig, p, p + 1, ".", alleles=tuple(als))
                     for p, als in zip(loc.snv_positions, loc.snv_alleles))
    return MLocus(contig=loc.contig, start=loc.start, stop=loc.stop, name=loc.name,
                  sequence=contigs[loc.contig][loc.start:loc.stop].upper(), variants=variants)


# --------------------------------------------------------------------------------------
# encode_sample_reads
# --------------------------------------------------------------------------------------

def phred_tokens(use_phred: bool, quals_seen) -> list:
    from mchap.io import util

    if not use_phred:
        return ["-"]
    qs = sorted(quals_seen)
    t = [str(len(qs))]
    for q in qs:
        t += [str(q), C.rat_str(float(util.prob_of_qual(np.int16(q))))]
    return t


def parse_sample_reply(model: str):
    """driver `c06.sample` reply -> dict"""
    if not model.startswith("ok "):
        return model
    t = model.split(" ")
    rcount, dp, snvdp, rcalls, nrows = int(t[1]), t[2], t[3], int(t[4]), int(t[5])
    calls = [[] if x == "*" else [int(v) for v in x.split(",")] for x in t[6:6 + nrows]]
    i = 6 + nrows
    nun = int(t[i])
    i += 1
    dists = []
    for _ in range(nun):
        cnt = int(t[i])
        cells = [] if t[i + 1] == "*" else t[i + 1].split(",")
        dists.append((cnt, cells))
        i += 2
    return {"rcount": rcount, "dp": None if dp == "nan" else int(dp),
            "snvdp": [] if snvdp == "*" else [int(v) for v in snvdp.split(",")], "rcalls": rcalls,
            "calls": calls, "dists": dists}


def check_encode(ctx: Ctx, stream, prog, mlocus, loc, pools, files, err_rate, use_phred, case_extra):
    """`program.encode_sample_reads` for every (pooled) sample of `prog` vs the model and the oracle.

    pools: sample -> [(name, bam path)]; files: bam path -> (specs, rgs, md_ref)."""
    from mchap.io.vcf import formatfields as FORMAT

    chk = ctx.chk
    o = Opts(prog.read_group_field, prog.mapping_quality, prog.skip_duplicates, prog.skip_qcfail,
             prog.skip_supplementary)
    data = prog._locus_data(mlocus, pools)
    try:
        prog.encode_sample_reads(data)
        impl_err = None
    except Exception as e:  # noqa: BLE001
        impl_err = error_tag(unwrap(e))
    quals_seen = set()
    for specs, _, _ in files.values():
        for s in specs:
            if s.quals:
                quals_seen.update(s.quals)
    # merged phreds are sums over the (few) alignments sharing a read name
    per_name = {}
    for specs, _, _ in files.values():
        for s in specs:
            per_name[s.qname] = per_name.get(s.qname, 0) + 1
    kmax = max(3, max(per_name.values(), default=0))
    sums = set(range(0, kmax * max(quals_seen, default=0) + 1)) if use_phred else set()
    state = {"stop": False}
    for sample in prog.samples:
        members = pools[sample]
        toks = ["c06.sample"] + tok_locus(loc.contig, loc.start, loc.stop, loc.snv_positions, loc.snv_alleles) \
            + o.tokens() + [C.rat_str(err_rate)] + phred_tokens(use_phred, sums) + [str(len(members))]
        for name, path in members:
            specs, rgs, md_ref = files[path]
            toks += [_name(name)] + tok_hdr(rgs) + tok_reads(specs, md_ref)
        line = " ".join(toks)
        case = {"stream": stream, "sample": sample, "pool": [(n, os.path.basename(p)) for n, p in members],
                "opts": o.describe(), "error_rate": err_rate, "use_phred": use_phred,
                "locus": {"contig": loc.contig, "start": loc.start, "stop": loc.stop, "positions": loc.snv_positions,
                          "alleles": ["".join(a) for a in loc.snv_alleles]}, **case_extra}
        if impl_err is None:
            dp = data.sampledata[FORMAT.DP][sample]
            snvdp = data.sampledata[FORMAT.SNVDP][sample]
            n_snv = len(loc.snv_positions)
            impl = {
                "rcount": int(data.sampledata[FORMAT.RCOUNT][sample]),
                "dp": None if np.isnan(dp) else int(dp),
                "snvdp": [] if (np.ndim(snvdp) == 0 and n_snv == 0) else [int(x) for x in np.atleast_1d(snvdp)],
                "rcalls": int(data.sampledata[FORMAT.RCALLS][sample]),
                "calls": [[int(a) for a in row] for row in data.read_calls[sample]],
                "dists": data.read_dists[sample], "counts": [int(c) for c in data.read_counts[sample]],
            }
        else:
            impl = impl_err
        chk.count(f"{stream}:encode")
        chk.count("pool-size=%d" % len(members))

        # property oracle on the implementation's statistics
        if impl_err is None:
            rows = []
            conflict = False
            for name, path in members:
                specs, rgs, md_ref = files[path]
                oo = Opts(o.id_field, o.minq, o.skip_dup, o.skip_qc, o.skip_supp, samples=name)
                r, used = oracle_rows(specs, rgs, loc, oo)
                conflict = conflict or oracle_ref_conflict(used, loc, md_ref)
                rows += list(r.get(name, {}).values())
            if conflict:
                chk.violation("reference conflict but encode_sample_reads returned statistics", case,
                              "C06/encode_sample_reads/ref-mismatch-not-reported")
            else:
                rc, dpx, sdp, rcl, calls = oracle_stats(rows, loc)
                exp = {"rcount": rc, "dp": dpx, "snvdp": sdp, "rcalls": rcl, "calls": calls}
                for key in ("rcount", "dp", "snvdp", "rcalls", "calls"):
                    if impl[key] != exp[key]:
                        chk.violation(f"{key.upper()} is not the corresponding count of the filtered pileup",
                                      {**case, "impl": impl[key], "expected": exp[key]},
                                      f"C06/encode_sample_reads/{key}")
                        break
                if sum(impl["counts"]) != rc:
                    chk.violation("counts of the de-duplicated reads do not sum to RCOUNT",
                                  {**case, "counts": impl["counts"], "rcount": rc}, "C06/encode_sample_reads/dedup-sum")
                # probabilistic encoding per the documentation, read by read
                dist_rows = []
                p_ok = 1.0 - err_rate
                for row in calls:
                    if use_phred:
                        break
                    dr = []
                    for j, a in enumerate(row):
                        na = len(loc.snv_alleles[j])
                        dr.append([0.0 if b >= na else (math.nan if a < 0 else (p_ok if b == a else (1 - p_ok) / 3))
                                   for b in range(impl["dists"].shape[2] if impl["dists"].ndim == 3 else 0)])
                    dist_rows.append(dr)
                if not use_phred and len(calls) > 0 and len(loc.snv_positions) > 0:
                    seen = []
                    for dr in dist_rows:
                        key = repr(dr)
                        hit = [x for x in seen if x[0] == key]
                        if hit:
                            hit[0][2] += 1
                        else:
                            seen.append([key, dr, 1])
                    ok = len(seen) == len(impl["counts"]) and all(
                        c == s[2] and np.allclose(np.array(s[1], dtype=float), d, rtol=1e-9, atol=1e-12, equal_nan=True)
                        for s, c, d in zip(seen, impl["counts"], impl["dists"]))
                    if not ok:
                        chk.violation("de-duplicated probabilistic reads differ from the documented encoding",
                                      {**case, "counts": impl["counts"], "expected_counts": [s[2] for s in seen]},
                                      "C06/encode_sample_reads/dists")

        def cb(model, impl=impl, line=line, case=case, sample=sample):
            if state["stop"]:
                return
            m = parse_sample_reply(model)
            chk.case(line, isinstance(m, dict) and m["rcount"] > 0 and len(loc.snv_positions) > 1,
                     sample={"request": line[:300], "impl": str(impl)[:300], "model": model[:300]})
            if isinstance(m, str):
                # the model says this sample raises: the implementation must have raised the same error here
                state["stop"] = True
                if impl != m:
                    chk.disagreement("encode_sample_reads error != model", {**case, "impl": str(impl)[:500], "model": m})
                return
            if isinstance(impl, str):
                return   # an earlier / later sample raised; decided at that sample
            for key in ("rcount", "dp", "snvdp", "rcalls", "calls"):
                if impl[key] != m[key]:
                    chk.disagreement(f"encode_sample_reads {key} != model", {**case, "impl": impl[key], "model": m[key]})
                    return
            if [c for c, _ in m["dists"]] != impl["counts"]:
                chk.disagreement("de-duplication counts != model",
                                 {**case, "impl": impl["counts"], "model": [c for c, _ in m["dists"]]})
                return
            for (c, cells), d in zip(m["dists"], impl["dists"]):
                flat = [float(x) for x in np.asarray(d, dtype=float).ravel()]
                if len(flat) != len(cells):
                    chk.disagreement("dist shape != model", {**case, "impl": len(flat), "model": len(cells)})
                    return
                for x, y in zip(flat, cells):
                    same = math.isnan(x) if y == "nan" else (not math.isnan(x) and C.close(x, float(C.parse_rat(y))))
                    if not same:
                        chk.disagreement("probabilistic cell != model", {**case, "impl": x, "model": y})
                        return

        ctx.ask(line, cb)

    def last(_):
        if impl_err is not None and not state["stop"]:
            chk.disagreement("encode_sample_reads raised but the model has no error for any sample",
                             {"stream": stream, "impl": impl_err, **case_extra})
    # evaluated after the per-sample callbacks of this call
    ctx.ask(None, last)


# --------------------------------------------------------------------------------------
# hand-built boundary BAMs
# --------------------------------------------------------------------------------------

class HLocus:
    def __init__(self, name, contig, start, stop, positions, alleles):
        self.name, self.contig, self.start, self.stop = name, contig, start, stop
        self.snv_positions, self.snv_alleles = positions, alleles


def rand_cigar(r, span_hint, pad=False):
    """[H][S] M ((I|D|N[|P]) M)* [S][H] with M sometimes written = / X; returns list of (n, op)"""
    ops = []
    if r.random() < 0.15:
        ops.append((r.randint(1, 3), "H"))
    if r.random() < 0.25:
        ops.append((r.randint(1, 4), "S"))
    n_blocks = r.choice([1, 1, 1, 2, 2, 3])
    budget = max(n_blocks, span_hint)
    for b in range(n_blocks):
        m = max(1, budget // n_blocks + r.randint(-2, 2))
        ops.append((m, r.choice(["M", "M", "M", "=", "X"])))
        if b < n_blocks - 1:
            kinds = ["I", "D", "N"] + (["P", "P"] if pad else [])
            k = r.choice(kinds)
            ops.append((r.randint(1, 4) if k != "N" else r.randint(1, 12), k))
    if r.random() < 0.25:
        ops.append((r.randint(1, 4), "S"))
    if r.random() < 0.15:
        ops.append((r.randint(1, 3), "H"))
    return ops


def hand_case(r, pad=False, substr=False, few_names=False):
    """one contig pair, one locus, 6..18 records at the filter / window / merge boundaries

    `substr`: sample names / read-group IDs / read names that are substrings of each other (s1, s10, s1x, s);
    `few_names`: two read names only, so that most names have >= 3 alignments."""
    L = r.randint(110, 160)
    contigs = {"c1": "".join(r.choice(S.BASES) for _ in range(L)), "c2": "".join(r.choice(S.BASES) for _ in range(L))}
    start = r.randint(25, 50)
    stop = start + r.randint(4, 35)
    k = r.choice([0, 1, 1, 2, 3, 4])
    k = min(k, stop - start)
    positions = sorted(r.sample(range(start, stop), k))
    alleles = []
    for p in positions:
        ref = contigs["c1"][p]
        others = [b for b in S.BASES if b != ref]
        r.shuffle(others)
        als = [ref] + others[:r.choice([1, 1, 2, 3])]
        u = r.random()
        if u < 0.06:
            als.append("N")            # an 'N' allele: an N base / a mate conflict then *is* a listed allele
        elif u < 0.10:
            als.append(als[1])         # repeated allele: dict comprehension keeps the last index
        alleles.append(als)
    loc = HLocus("h", "c1", start, stop, positions, alleles)
    # read groups: ID strings deliberately collide with SM strings of other groups
    n_samples = r.choice([1, 2, 2, 3])
    sms = [f"s{i + 1}" for i in range(n_samples)]
    if substr:
        n_samples = r.choice([2, 3, 3, 4])
        sms = r.sample(["s1", "s10", "s1x", "s"], n_samples)
    rgs = []
    for i, sm in enumerate(sms):
        for j in range(r.choice([1, 1, 2])):
            rid = f"g{len(rgs) + 1}"
            if substr:
                rid = ["g1", "g10", "g1x", "g", "g100", "1g", "g1.", "g11"][len(rgs)]
            if r.random() < 0.3:
                rid = sms[(i + 1) % n_samples] if all(g["ID"] != sms[(i + 1) % n_samples] for g in rgs) else rid
            rgs.append({"ID": rid, "SM": sm})
    r.shuffle(rgs)
    thr = r.choice([0, 1, 10, 20, 20, 30, 60])
    n_reads = r.randint(6, 18)
    names = [f"q{i}" for i in range(max(2, n_reads // 2))]
    if few_names:
        names = ["q1", "q10"]
    specs = []
    for i in range(n_reads):
        contig = "c1" if r.random() < 0.9 else "c2"
        ref = contigs[contig]
        ops = rand_cigar(r, r.randint(3, 30), pad)
        ref_len = sum(n for n, op in ops if op in "MDN=X")
        u = r.random()
        if u < 0.12:
            pos = start - ref_len + r.choice([-1, 0, 1])      # ends at / around the window start
        elif u < 0.24:
            pos = stop + r.choice([-2, -1, 0, 1])             # starts at / around the window end
        else:
            pos = r.randint(start - ref_len, stop)
        pos = max(0, min(pos, L - ref_len))
        seq, quals = [], []
        rr = pos
        for n, op in ops:
            if op in "M=X":
                for x in range(n):
                    b = ref[rr + x]
                    if contig == "c1" and (rr + x) in positions:
                        als = alleles[positions.index(rr + x)]
                        v = r.random()
                        b = r.choice(als) if v < 0.8 else ("N" if v < 0.88 else r.choice(S.BASES))
                    elif r.random() < 0.03:
                        b = r.choice(S.BASES)
                    seq.append(b)
                    quals.append(r.randint(2, 41))
                rr += n
            elif op in "DN":
                rr += n
            elif op in "IS":
                for _ in range(n):
                    seq.append(r.choice(S.BASES))
                    quals.append(r.randint(2, 41))
        flag = 0
        v = r.random()
        if v < 0.45:
            for bit in (DUP, QCFAIL, SUPP, SECONDARY):
                if r.random() < 0.3:
                    flag |= bit
        if r.random() < 0.3:
            flag |= r.choice([0x1 | 0x2 | 0x40, 0x1 | 0x2 | 0x80, 0x1 | 0x40, 0x10])
        mapq = r.choice([max(0, thr - 1), thr, thr + 1, thr, 60, 0]) if r.random() < 0.6 else 60
        cigar = "".join(f"{n}{op}" for n, op in ops)
        if len(seq) < 2:
            # one-base reads corrupt pysam's `AlignedSegment.qual` (and the interpreter's cached bytes objects); they
            # have their own stream, run in a subprocess
            continue
        spec = S.ReadSpec(r.choice(names), contig, pos, cigar, "".join(seq), quals, flag, min(mapq, 254),
                          r.choice(rgs)["ID"])
        if r.random() < 0.05:
            spec.flag |= UNMAPPED
            if r.random() < 0.5:
                spec.cigar = "*"
        specs.append(spec)
    specs = S.sort_reads(contigs, specs)
    return contigs, loc, rgs, specs, thr


def option_grid(r, rgs, thr, n):
    """the 8 keep-flag combinations at threshold -1 / 0 / +1, both read-group fields, sample selections"""
    sms = sorted({g["SM"] for g in rgs})
    ids = sorted({g["ID"] for g in rgs})
    out = []
    combos = [(a, b, c) for a in (True, False) for b in (True, False) for c in (True, False)]
    r.shuffle(combos)
    for i in range(n):
        a, b, c = combos[i % 8]
        field = r.choice(["SM", "SM", "ID"])
        pool = sms if field == "SM" else ids
        u = r.random()
        if u < 0.35:
            sel = None
        elif u < 0.7:
            sel = r.choice(pool)
        elif u < 0.9:
            sel = sorted(r.sample(pool, min(len(pool), 2)))
        else:
            sel = r.choice(["nobody", []]) if r.random() < 0.7 else [r.choice(pool), "nobody"]
        minq = max(0, thr + r.choice([-1, 0, 0, 1])) if r.random() < 0.8 else r.choice([0, 1, 19, 20, 21, 31, 61, 255])
        out.append(Opts(field, minq, a, b, c, sel))
    return out


def strip_md_bam(src, dst):
    import pysam

    with pysam.AlignmentFile(src) as f, pysam.AlignmentFile(dst, "wb", header=f.header) as out:
        for a in f.fetch(until_eof=True):
            if a.has_tag("MD"):
                a.set_tag("MD", None)
            out.write(a)
    pysam.index(dst)
    return dst


def drop_rg_bam(src, dst, rgid):
    """same records, but the @RG line `rgid` is removed from the header (its reads keep their RG tag)"""
    import pysam

    with pysam.AlignmentFile(src) as f:
        hd = f.header.to_dict()
        hd["RG"] = [g for g in hd.get("RG", []) if g["ID"] != rgid]
        with pysam.AlignmentFile(dst, "wb", header=hd) as out:
            for a in f.fetch(until_eof=True):
                out.write(pysam.AlignedSegment.from_dict(a.to_dict(), out.header))
    pysam.index(dst)
    return dst


def pysam_refbases(bam, n_expected):
    """third component of get_aligned_pairs(with_seq=True) per record, in file order (padding stream only)"""
    import pysam

    out = []
    with pysam.AlignmentFile(bam) as f:
        for a in f.fetch(until_eof=True):
            try:
                out.append("".join(c for _, _, c in a.get_aligned_pairs(matches_only=True, with_seq=True)))
            except Exception:  # noqa: BLE001
                out.append(None)
    if len(out) != n_expected:
        raise C.Infra("record count changed on read-back")
    return out


ONE_BASE_SCRIPT = r"""
import json, sys
sys.path.insert(0, sys.argv[1])
from harness import common as C
C.setup_numba_cache()
from harness import synth as S
import pysam
from mchap.io.bam import extract_read_variants
from mchap.io.loci import Locus, SNP
work, q = sys.argv[2], int(sys.argv[3])
contigs = {"c1": "ACGTACGTACGTACGTACGT"}
reads = [S.ReadSpec("one", "c1", 5, "1M", "C", [q], 0, 60, "rg"), S.ReadSpec("two", "c1", 4, "3M", "ACG", [q, q, q], 0, 60, "rg")]
bam = S.write_bam(work + "/one.bam", contigs, reads, [{"ID": "rg", "SM": "s"}])
locus = Locus("c1", 3, 8, "x", "TACGT", (SNP("c1", 5, 6, ".", ("C", "T")),))
out = []
for rep in range(3):
    try:
        with pysam.AlignmentFile(bam) as f:
            d = extract_read_variants(locus, f, read_dicts=True)
        out.append({k: ["".join(v[0]), [int(x) for x in v[1]]] for k, v in d["s"].items()})
    except Exception as e:
        out.append("error:" + type(e).__name__)
print(json.dumps(out))
"""


def one_base_stream(chk, work, r, n):
    """records whose SEQ has a single base, in a subprocess (pysam's deprecated `.qual` accessor mutates a cached bytes object)"""
    import json
    import subprocess
    import sys

    for i in range(n):
        q = r.randint(2, 41)
        res = subprocess.run([sys.executable, "-W", "ignore", "-c", ONE_BASE_SCRIPT, str(C.VERIF), work, str(q)],
                             env=C.subprocess_env(), capture_output=True, text=True, timeout=600)
        chk.count("one-base-stream")
        case = {"stream": "one-base", "phred": q, "reads": [("one", "c1", 5, "1M", "C", [q]), ("two", "c1", 4, "3M", "ACG", [q, q, q])],
                "locus": {"contig": "c1", "start": 3, "stop": 8, "positions": [5], "alleles": ["CT"]}, "calls": 3}
        if res.returncode != 0:
            raise C.Infra(f"one-base subprocess failed: {res.stderr[-400:]}")
        got = json.loads(res.stdout.strip().split("\n")[-1])
        want = {"one": ["C", [q]], "two": ["C", [q]]}
        chk.case(["one-base", q], True)
        if any(g != want for g in got):
            chk.violation("a read whose SEQ has one base gets a wrong phred score on the second extraction in a process and raises "
                          "UnicodeDecodeError later (pysam's deprecated AlignedSegment.qual mutates CPython's cached one-byte object)",
                          {**case, "impl": got, "expected": [want] * 3}, "C06/pysam.AlignedSegment.qual/one-base-read")


# --------------------------------------------------------------------------------------
# run
# --------------------------------------------------------------------------------------

def run(tier, replay=None):
    import pysam  # noqa: F401
    from mchap.application import baseclass
    from mchap.application.assemble import program as AsmProgram
    from mchap.io.loci import Locus as MLocus

    chk = C.Check(PROP, tier, MODULE, THEOREMS, RULE, assumptions=[
        "the model starts from decoded alignment records: BAM decoding, the index look-up of fetch() and the MD-tag "
        "reconstruction of reference bases happen in htslib / pysam and are only exercised by the correspondence",
        "base characters come from BAM's 4-bit alphabet (=ACMGRSVTWYHKDBN): the gap symbol '-' never occurs as a base "
        "(hypothesis of merge_order_independent)",
        "summed phred scores stay below the int16 range (more than ~350 alignments with one read name are not generated)",
        "pysam 0.24.1 get_aligned_pairs walks a CIGAR P op like an insertion; the model mirrors that (Aln.pairs) and the "
        "SAM-spec walk is Aln.samPairs; both agree on records without P (theorem pairs_spec)",
        "probabilities of the phred path are compared at rel 1e-9 (prob_of_qual is supplied to the model as the exact value "
        "of the float the code computes)",
    ], exe="driver_io")
    chk.prove()
    drv = C.Driver("driver_io")
    ctx = Ctx(chk, drv, tier)
    r = C.rng(PROP)
    work = tempfile.mkdtemp(prefix="c06-", dir=os.environ.get("TMPDIR", "/tmp"))
    n_synth = {"warm": 1, "quick": 36, "thorough": 240}[tier]
    n_hand = {"warm": 3, "quick": 450, "thorough": 3000}[tier]
    n_err = {"warm": 2, "quick": 48, "thorough": 480}[tier]
    if tier != "warm":
        chk.require("error-stream:bam-ref:only-later-alignments-inconsistent",
                    "a reference disagreement must be reported whichever alignment over the SNV carries it, not only the first one met")
    n_pad = {"warm": 1, "quick": 12, "thorough": 120}[tier]
    n_cli = {"warm": 1, "quick": 4, "thorough": 24}[tier]
    try:
        # ------------------------------------------------------------ synthetic datasets
        feats_all = sorted(S.ALL_FEATURES)
        cli_datasets = []
        for i in range(n_synth):
            if i == 0:
                feats = set(feats_all)
            elif i == 1:
                feats = set()
            else:
                feats = {f for f in feats_all if r.random() < 0.5}
            d = os.path.join(work, f"ds{i}")
            ds = S.make_dataset(r, d, n_samples=r.choice([2, 3]), n_loci=3, ploidies=(2, 4), max_snvs=4,
                                depth=(3, 10), read_len=(15, 60), features=feats, n_contigs=r.choice([1, 2]),
                                contig_len=360)
            for f in sorted(feats):
                chk.count(f"feature:{f}")
            files = {p: (ds.reads[p], ds.read_groups[p], ds.contigs) for p in ds.bams}
            for bam in ds.bams:
                specs, rgs, _ = files[bam]
                for loc in ds.loci:
                    ml = make_mlocus(loc, ds.contigs)
                    mq = sorted({s.mapq for s in specs})
                    thr = r.choice(mq) if mq else 20
                    for o in option_grid(r, rgs, thr, 5):
                        check_extract(ctx, "synth", bam, ds.fasta, specs, rgs, loc, ml, o, ds.contigs)
            # encode_sample_reads through the real CLI parser
            for rep in range(2):
                extra = ["--mapping-quality", str(r.choice([0, 1, 19, 20, 21, 30, 60]))]
                for fl in ("--keep-duplicate-reads", "--keep-qcfail-reads", "--keep-supplementary-reads"):
                    if r.random() < 0.5:
                        extra.append(fl)
                err_rate = r.choice([0.0024, 0.0, 0.01, 0.25, 0.75])
                extra += ["--base-error-rate", repr(err_rate)]
                use_phred = r.random() < 0.3 or err_rate == 0.0     # the parser rejects error rate 0 without phred scores
                if use_phred:
                    extra.append("--use-base-phred-scores")
                field = "ID" if r.random() < 0.3 else "SM"
                pooled = r.random() < 0.3
                argv = ds.assemble_argv(*extra)
                if field == "ID":
                    argv[argv.index("--ploidy") + 1] = "2"
                    argv += ["--read-group-field", "ID"]
                if pooled:
                    argv[argv.index("--ploidy") + 1] = "4"
                    argv += ["--sample-pool", "POOL"]
                prog = AsmProgram.cli(argv)
                chk.count(f"encode:field={field}"); chk.count(f"encode:pooled={pooled}"); chk.count(f"encode:phred={use_phred}")
                mloci = list(prog.loci())
                for loc, ml in zip(ds.loci, mloci):
                    if (ml.contig, ml.start, ml.stop) != (loc.contig, loc.start, loc.stop) or \
                            [list(a) for a in ml.alleles] != [list(a) for a in loc.snv_alleles] or \
                            list(ml.positions) != list(loc.snv_positions):
                        chk.disagreement("Locus.set_variants / read_bed4 != dataset loci",
                                         {"dataset": sorted(feats), "locus": loc.name})
                        continue
                    check_encode(ctx, "synth", prog, ml, loc, prog.sample_bams, files, err_rate, use_phred,
                                 {"features": sorted(feats), "argv": extra})
            ctx.flush()
            if len(cli_datasets) < n_cli:
                cli_datasets.append((ds, files, feats))
            else:
                shutil.rmtree(d, ignore_errors=True)

        # ------------------------------------------------------------ CLI: FORMAT fields of `mchap assemble`
        for ds, files, feats in cli_datasets:
            extra = ["--mcmc-steps", "150", "--mcmc-burn", "50", "--report", "SNVDP"]
            o = Opts("SM", 20, True, True, True)
            u = r.random()
            if u < 0.4:
                extra += ["--keep-duplicate-reads", "--keep-supplementary-reads", "--mapping-quality", "1"]
                o = Opts("SM", 1, False, True, False)
            elif u < 0.7:
                extra += ["--keep-qcfail-reads", "--mapping-quality", "21"]
                o = Opts("SM", 21, True, False, True)
            out, code, err = S.run_program(ds.assemble_argv(*extra))
            chk.count("cli:assemble")
            if code != 0:
                chk.disagreement("mchap assemble failed on a consistent dataset", {"features": sorted(feats), "error": err[:500]})
                continue
            _, recs = S.parse_vcf_text(out)
            by_pos = {(rec["CHROM"], rec["POS"]): rec for rec in recs}
            for loc in ds.loci:
                rec = by_pos.get((loc.contig, loc.start + 1))
                if rec is None:
                    chk.disagreement("assemble printed no record for a target", {"locus": loc.name})
                    continue
                for sname, cols in zip(rec["sample_names"], rec["samples"]):
                    bam = ds.sample_bam[sname]
                    specs, rgs, md_ref = files[bam]
                    impl = (cols.get("RCOUNT"), cols.get("DP"), cols.get("SNVDP"), cols.get("RCALLS"))
                    line = " ".join(["c06.sample"] + tok_locus(loc.contig, loc.start, loc.stop, loc.snv_positions, loc.snv_alleles)
                                    + o.tokens() + [C.rat_str(0.0024), "-", "1", _name(sname)] + tok_hdr(rgs) + tok_reads(specs, md_ref))
                    oo = Opts(o.id_field, o.minq, o.skip_dup, o.skip_qc, o.skip_supp, samples=sname)
                    rws, _ = oracle_rows(specs, rgs, loc, oo)
                    rc, dpx, sdp, rcl, _ = oracle_stats(list(rws.get(sname, {}).values()), loc)
                    exp = (str(rc), "." if dpx is None else str(dpx), ",".join(str(x) for x in sdp) or ".", str(rcl))
                    case = {"stream": "cli", "features": sorted(feats), "argv": extra, "locus": loc.name, "sample": sname}
                    if impl != exp:
                        chk.violation("FORMAT RCOUNT/DP/SNVDP/RCALLS of mchap assemble are not the counts of the filtered pileup",
                                      {**case, "impl": impl, "expected": exp}, "C06/assemble/format-fields")

                    def cb(model, impl=impl, line=line, case=case):
                        m = parse_sample_reply(model)
                        chk.case(line, isinstance(m, dict) and m["rcount"] > 0)
                        if isinstance(m, str):
                            chk.disagreement("assemble printed a record but the model raises", {**case, "model": m})
                            return
                        mm = (str(m["rcount"]), "." if m["dp"] is None else str(m["dp"]),
                              ",".join(str(x) for x in m["snvdp"]) or ".", str(m["rcalls"]))
                        if mm != impl:
                            chk.disagreement("assemble FORMAT fields != model", {**case, "impl": impl, "model": mm})
                    ctx.ask(line, cb)
            ctx.flush()
            shutil.rmtree(ds.dir, ignore_errors=True)

        # ------------------------------------------------------------ hand-built boundary BAMs
        for i in range(n_hand):
            contigs, loc, rgs, specs, thr = hand_case(r)
            d = os.path.join(work, "hand")
            os.makedirs(d, exist_ok=True)
            bam = S.write_bam(os.path.join(d, "h.bam"), contigs, specs, rgs)
            ml = make_mlocus(loc, contigs)
            for o in option_grid(r, rgs, thr, 6):
                check_extract(ctx, "hand", bam, None, specs, rgs, loc, ml, o, contigs)
            # encode_sample_reads with arbitrary pools over this file
            field = r.choice(["SM", "ID"])
            keys = sorted({g[field] for g in rgs})
            pools = {}
            for pname in ("P1", "P2"):
                pools[pname] = [(r.choice(keys + ["nobody"] if r.random() < 0.05 else keys), bam)
                                for _ in range(r.choice([0, 1, 1, 2, 3]))]
            err_rate = r.choice([0.0024, 0.0, 0.5, 0.75])
            prog = baseclass.program(
                vcf=None, ref=None, samples=list(pools), sample_bams=pools, sample_ploidy={}, sample_inbreeding={},
                read_group_field=field, base_error_rate=err_rate, ignore_base_phred_scores=True,
                mapping_quality=max(0, thr + r.choice([-1, 0, 1])), skip_duplicates=r.random() < 0.5,
                skip_qcfail=r.random() < 0.5, skip_supplementary=r.random() < 0.5, info_fields=[], format_fields=[])
            if all(n != "nobody" for m in pools.values() for n, _ in m):
                check_encode(ctx, "hand", prog, ml, loc, pools, {bam: (specs, rgs, contigs)}, err_rate, False, {})
            if i % 20 == 19:
                ctx.flush()
        ctx.flush()

        # ------------------------------------------------------------ error streams
        for i in range(n_err):
            kind = ["no-rg", "no-qual", "no-md", "bam-ref", "bam-ref", "unknown-rg"][i % 6]
            chk.count(f"error-stream:{kind}")
            d = os.path.join(work, "err")
            os.makedirs(d, exist_ok=True)
            contigs, loc, rgs, specs, thr = hand_case(r)
            md_ref = contigs
            strip = False
            if kind == "no-rg":
                for s in r.sample(specs, min(len(specs), 2)):
                    s.rg = None
            elif kind == "no-qual":
                for s in r.sample(specs, min(len(specs), 2)):
                    s.quals = None
            elif kind == "bam-ref" and loc.snv_positions:
                # the BAM was aligned to a reference that differs from the FASTA / SNV file at one SNV
                def covering(p_):
                    return [s_ for s_ in S.sort_reads(contigs, specs) if s_.contig == "c1" and has_md(s_)
                            and any(rp == p_ for _, rp in S.aligned_pairs(s_))]
                if i % 12 >= 6:
                    # (this variant needs an SNV that two alignments with different read names cover: draw cases until one has it)
                    for _ in range(40):
                        good = [p_ for p_ in loc.snv_positions if len({s_.qname for s_ in covering(p_)}) >= 2]
                        if good:
                            break
                        contigs, loc, rgs, specs, thr = hand_case(r)
                        md_ref = contigs
                p = r.choice([p_ for p_ in loc.snv_positions if len({s_.qname for s_ in covering(p_)}) >= 2] or loc.snv_positions) \
                    if loc.snv_positions else None
            if kind == "bam-ref" and loc.snv_positions:
                seq = contigs["c1"]
                md_ref = dict(contigs)
                md_ref["c1"] = seq[:p] + r.choice([b for b in S.BASES if b != seq[p]]) + seq[p + 1:]
                cover = [s_ for s_ in S.sort_reads(contigs, specs) if s_.contig == "c1" and has_md(s_)
                         and any(rp == p for _, rp in S.aligned_pairs(s_))]
                if i % 12 >= 6 and len(cover) >= 2:
                    # only the LATER alignments over that SNV come from the other reference: the first one met is consistent
                    first_name = cover[0].qname
                    names = {s_.qname for s_ in cover[1:]} - {first_name}
                    if names:
                        md_ref = PerReadRef(contigs, md_ref, names)
                        chk.count("error-stream:bam-ref:only-later-alignments-inconsistent")
            if isinstance(md_ref, PerReadRef):
                a_ = S.write_bam(os.path.join(d, "eA.bam"), contigs, [s_ for s_ in specs if s_.qname not in md_ref.other_names], rgs)
                b_ = S.write_bam(os.path.join(d, "eB.bam"), md_ref.other, [s_ for s_ in specs if s_.qname in md_ref.other_names], rgs)
                bam = merge_sorted_bams(a_, b_, os.path.join(d, "e.bam"))
            else:
                bam = S.write_bam(os.path.join(d, "e.bam"), md_ref, specs, rgs)
            if kind == "no-md":
                bam = strip_md_bam(bam, os.path.join(d, "e2.bam"))
                strip = True
            if kind == "unknown-rg" and len(rgs) >= 2:
                gone = r.choice(rgs)["ID"]
                bam = drop_rg_bam(bam, os.path.join(d, "e3.bam"), gone)
                rgs = [g for g in rgs if g["ID"] != gone]
            ml = make_mlocus(loc, contigs)
            for o in option_grid(r, rgs, thr, 5):
                check_extract(ctx, kind, bam, None, specs, rgs, loc, ml, o, md_ref, strip_md=strip)
        ctx.flush()

        # SNV file vs FASTA: Locus.set_sequence / set_variants / validate_reference_alleles, in-process and CLI
        n_vcf = {"warm": 1, "quick": 6, "thorough": 40}[tier]
        for i in range(n_vcf):
            d = os.path.join(work, f"vcfref{i}")
            ds = S.make_dataset(r, d, n_samples=2, n_loci=3, max_snvs=4, depth=(2, 5), read_len=(20, 50), contig_len=300)
            cands = [(l, j) for l in ds.loci for j in range(len(l.snv_positions))]
            mutate = i % 3 != 2 and cands
            bad_locus = None
            if mutate:
                l, j = r.choice(cands)
                bad_locus = l.name
                how = ["lower", "other"][i % 2]          # both kinds in every run (a lower-case REF is not the reference base either)
                old = l.snv_alleles[j][0]
                new = old.lower() if how == "lower" else r.choice([b for b in S.BASES if b != old and b not in l.snv_alleles[j]] or [b for b in S.BASES if b != old])
                loci2 = [S.Locus(x.name, x.contig, x.start, x.stop, list(x.snv_positions), [list(a) for a in x.snv_alleles])
                         for x in ds.loci]
                for x in loci2:
                    if x.name == l.name:
                        x.snv_alleles[j][0] = new
                vcf = S.write_snv_vcf(os.path.join(d, "snvs_bad.vcf"), ds.contigs, loci2)
                chk.count(f"vcf-ref:{how}")
            else:
                loci2, vcf = ds.loci, ds.snv_vcf
                chk.count("vcf-ref:consistent")
            for l2 in loci2:
                try:
                    MLocus(l2.contig, l2.start, l2.stop, l2.name, None, None).set_sequence(ds.fasta).set_variants(vcf)
                    impl = "ok"
                except ValueError as e:
                    impl = "mismatch" if "does not match reference sequence" in str(e) else f"error:{e}"
                except IndexError:
                    impl = "indexError"
                seq = ds.contigs[l2.contig][l2.start:l2.stop].upper()
                line = " ".join(["c06.validate", str(l2.start), seq or "*", str(len(l2.snv_positions))] +
                                [t for p, a in zip(l2.snv_positions, l2.snv_alleles) for t in (str(p), "".join(a) or "*")])
                want = "ok" if all(ds.contigs[l2.contig][p].upper() == a[0] for p, a in zip(l2.snv_positions, l2.snv_alleles)) else "mismatch"
                case = {"stream": "vcf-ref", "locus": l2.name, "positions": l2.snv_positions,
                        "alleles": ["".join(a) for a in l2.snv_alleles], "sequence": seq}
                if impl != want:
                    chk.violation("REF of the SNV file vs FASTA: the disagreement is not reported as an error (or a spurious error)",
                                  {**case, "impl": impl, "expected": want}, "C06/validate_reference_alleles/spec")

                def cb(model, impl=impl, line=line, case=case):
                    chk.case(line, True)
                    if model != impl:
                        chk.disagreement("validate_reference_alleles != model", {**case, "impl": impl, "model": model})
                ctx.ask(line, cb)
            if i < 2 or tier == "thorough":
                argv = ["mchap", "assemble", "--bam", *ds.bams, "--ploidy", ds.ploidy_file, "--targets", ds.bed,
                        "--variants", vcf, "--reference", ds.fasta, "--mcmc-steps", "100", "--mcmc-burn", "50"]
                out, code, err = S.run_program(argv)
                chk.count("cli:assemble-vcf-ref")
                _, recs = S.parse_vcf_text(out)
                if mutate:
                    printed = [rec for rec in recs if rec["ID"] == bad_locus]
                    if code == 0 or printed or "does not match reference sequence" not in err:
                        chk.violation("mchap assemble used an SNV whose REF disagrees with the FASTA",
                                      {"stream": "vcf-ref-cli", "locus": bad_locus, "exit": code, "error": err[:300]},
                                      "C06/assemble/vcf-ref-mismatch-not-reported")
                elif code != 0:
                    chk.violation("mchap assemble failed on a consistent dataset", {"error": err[:300]},
                                  "C06/assemble/spurious-error")
            ctx.flush()
            shutil.rmtree(d, ignore_errors=True)

        # BAM reference vs FASTA through the CLI (the MD tags encode another base at one SNV)
        for i in range({"warm": 0, "quick": 2, "thorough": 8}[tier]):
            d = os.path.join(work, f"bamref{i}")
            ds = S.make_dataset(r, d, n_samples=2, n_loci=2, max_snvs=3, depth=(6, 10), read_len=(30, 60), contig_len=240)
            cands = [(l, j) for l in ds.loci for j in range(len(l.snv_positions))]
            if not cands:
                shutil.rmtree(d, ignore_errors=True)
                continue
            l, j = r.choice(cands)
            p = l.snv_positions[j]
            seq = ds.contigs[l.contig]
            md_ref = dict(ds.contigs)
            md_ref[l.contig] = seq[:p] + r.choice([b for b in S.BASES if b != seq[p]]) + seq[p + 1:]
            for bam in ds.bams:
                S.write_bam(bam, md_ref, ds.reads[bam], ds.read_groups[bam])
            covered = any(overlaps(s, l.contig, l.start, l.stop) and passes_property(s, Opts()) and
                          any(rp == p for _, rp in S.aligned_pairs(s)) for b in ds.bams for s in ds.reads[b])
            out, code, err = S.run_program(ds.assemble_argv("--mcmc-steps", "100", "--mcmc-burn", "50"))
            chk.count("cli:assemble-bam-ref")
            _, recs = S.parse_vcf_text(out)
            printed = [rec for rec in recs if rec["ID"] == l.name]
            if covered and (code == 0 or printed or "does not match alignment reference allele" not in err):
                chk.violation("mchap assemble used alignments whose reference base disagrees with the SNV's REF",
                              {"stream": "bam-ref-cli", "locus": l.name, "pos": p, "exit": code, "error": err[:300]},
                              "C06/assemble/bam-ref-mismatch-not-reported")
            shutil.rmtree(d, ignore_errors=True)

        # ------------------------------------------------------------ one-base reads (subprocess)
        one_base_stream(chk, work, r, {"warm": 1, "quick": 2, "thorough": 6}[tier])

        # ------------------------------------------------------------ padding CIGARs (pysam walks P like I)
        for i in range(n_pad):
            contigs, loc, rgs, specs, thr = hand_case(r, pad=True)
            d = os.path.join(work, "pad")
            os.makedirs(d, exist_ok=True)
            bam = S.write_bam(os.path.join(d, "p.bam"), contigs, specs, rgs)
            rb = pysam_refbases(bam, len(specs))
            ml = make_mlocus(loc, contigs)
            o = Opts("SM", 0, False, False, False)
            n_p = sum(1 for s in specs if "P" in s.cigar)
            chk.count("pad-stream:records-with-P", n_p)
            # model (mirrors pysam) vs implementation; no property oracle here, see below
            import pysam as _ps
            from mchap.io.bam import extract_read_variants
            try:
                with _ps.AlignmentFile(bam) as af:
                    got = extract_read_variants(ml, af, read_dicts=True, **o.kwargs())
                impl = fmt_extract(got)
                impl_rows = {k: {q: "".join(str(c) for c in v[0]) for q, v in x.items()} for k, x in got.items()}
            except Exception as e:  # noqa: BLE001
                impl, impl_rows = error_tag(e), None
            rbt = ["-" if x is None else x for x in rb]
            line = " ".join(["c06.extract"] + tok_locus(loc.contig, loc.start, loc.stop, loc.snv_positions, loc.snv_alleles)
                            + o.tokens() + tok_hdr(rgs) + tok_reads(specs, contigs, rbt))
            case = {"stream": "pad", "reads": [(s.qname, s.contig, s.pos, s.cigar, s.seq, s.flag, s.mapq, s.rg) for s in specs],
                    "locus": {"start": loc.start, "stop": loc.stop, "positions": loc.snv_positions,
                              "alleles": ["".join(a) for a in loc.snv_alleles]}}

            def cb(model, impl=impl, line=line, case=case):
                chk.case(line, True)
                if model != impl:
                    chk.disagreement("extract_read_variants != model on a padded CIGAR", {**case, "impl": impl[:1500], "model": model[:1500]})
            ctx.ask(line, cb)
            # the property (SAM-spec walk of P)
            want_rows, _ = oracle_rows(specs, rgs, loc, o)
            if impl_rows is None or any(impl_rows.get(k) != want_rows[k] for k in want_rows):
                chk.violation("alignments with a CIGAR P op are walked as if P consumed query bases (pysam get_aligned_pairs): "
                              "cells hold the wrong base or a spurious reference-mismatch error is raised",
                              {**case, "impl": impl[:600], "expected": {k: dict(v) for k, v in want_rows.items()}},
                              "C06/pysam.get_aligned_pairs/cigar-P-consumes-query")
        ctx.flush()

        # ------------------------------------------------------------ WP3: input shapes of the application glue
        from . import wp3_c06 as W3
        W3.extra_streams(ctx, work, tier)
    finally:
        shutil.rmtree(work, ignore_errors=True)
    sigs = {}
    for v in chk.violations:
        sigs[v["signature"]] = sigs.get(v["signature"], 0) + 1
    for sig, n in sorted(sigs.items()):
        print(f"[C06] deviation signature={sig} cases={n}")
    return chk.finish()
