"""Per-sample parameter plumbing of the four calling programs (assemble, call, call-exact, call-pedigree).

Statement checked (part of C10 "samples are called independently", and the application glue of C02 / C03 / C05):
*each sample's model is fit with that sample's own parameters and that sample's own reads*.

How: while a program runs in-process (`synth.run_program`) the `Recorder` wraps, at class / module level,

  * `DenovoMCMC.fit`, `CallingMCMC.fit`, `PedigreeCallingMCMC.fit` -- the EFFECTIVE parameters are read from `self`
    at fit time (not at construction: a sampler object that is built once and re-used shows the values it really has),
    together with the read arrays that are passed in;
  * `genotype_likelihoods` in the namespaces of mchap.application.{assemble, call, call_exact, call_pedigree} and
    `genotype_posteriors`, `posterior_mode` in the namespace of mchap.application.call_exact (arguments bound through
    the function's signature, so positional / keyword / defaulted arguments are all seen as what the callee receives).

harness/c10.py's `Observer` (its `encode_sample_reads` recorder) says, per locus, the order of `data.samples`, each
sample's own encoded reads, the locus' haplotypes / prior frequencies / reference mask.  The truth about the per-sample
parameters is what `run_plumbing` wrote into the --ploidy / --inbreeding / --mcmc-temperatures / --gamete-* files.

Oracle (`check_run`): at every locus the recorded calls of a site can be attributed to the samples -- there is an
injective assignment call -> sample under which every recorded field equals the sample's own value (ploidy, inbreeding,
temperatures, reads, read counts, for `genotype_posteriors` the log-likelihoods of the sample's own reads) and the locus'
value (haplotypes / frequencies after masking); the assignment is searched over all orders, so nothing is demanded about
the order in which a program visits its samples.  A locus where some sample got a called genotype must show one call per
sample at the sites the program needs.

Run-wide sampler options (`check_options`): the same runs give EVERY numeric sampler option of the program's parser a
non-default value (assemble: --mcmc-steps / -burn / -chains / -seed / -fix-homozygous / -recombination-step-probability /
-partial-dosage-step-probability / -dosage-step-probability / -llk-cache-threshold / -chain-incongruence-threshold,
--haplotype-posterior-threshold; call and call-pedigree: steps, burn, chains, seed, chain-incongruence-threshold); the
attribute of the model object at fit time, resp. the argument of `trace.burn`, `trace.replicate_incongruence`,
`call_posterior_haplotypes`, must equal the command-line value.

Violations carry the signature "Cxx/plumbing/<program>/<what>"; `what` = the first field that is wrong (reads,
read_counts, log_likelihoods, ploidy, inbreeding, temperatures, haplotypes, frequencies, n_alleles, pedigree), or calls,
parsed-ploidy, parsed-inbreeding, run-failed, option-<flag without dashes>.
"""
from __future__ import annotations

import dataclasses
import hashlib
import inspect
import itertools
import os
import shutil
import tempfile

import numpy as np

from . import common as C
from . import synth

PROGRAMS = ("assemble", "call", "call-exact", "call-pedigree")
PRIORITY = ["reads", "read_counts", "log_likelihoods", "ploidy", "inbreeding", "temperatures", "haplotypes", "frequencies",
            "n_alleles", "pedigree"]
TOL = 1e-12          # parameters are passed through, never computed
EXTRA_SAMPLE = "NOT_IN_RUN"

FIT_SITE = {"assemble": "DenovoMCMC.fit", "call": "CallingMCMC.fit", "call-pedigree": "PedigreeCallingMCMC.fit"}
_COMMON_OPTIONS = [("mcmc-steps", "fit", "steps"), ("mcmc-chains", "fit", "chains"), ("mcmc-seed", "fit", "random_seed"),
                   ("mcmc-burn", "burn", "n"), ("mcmc-chain-incongruence-threshold", "replicate_incongruence", "threshold")]
# option (command-line flag without the dashes) -> where its value must arrive: ("fit", attribute of the model object at
# fit time) | ("burn" / "replicate_incongruence", argument of that trace method) | ("haps", threshold of call_posterior_haplotypes)
OPTIONS = {
    "assemble": _COMMON_OPTIONS + [
        ("mcmc-fix-homozygous", "fit", "fix_homozygous"),
        ("mcmc-recombination-step-probability", "fit", "recombination_step_probability"),
        ("mcmc-partial-dosage-step-probability", "fit", "partial_dosage_step_probability"),
        ("mcmc-dosage-step-probability", "fit", "dosage_step_probability"),
        ("mcmc-llk-cache-threshold", "fit", "llk_cache_threshold"),
        ("haplotype-posterior-threshold", "haps", "threshold")],
    "call": list(_COMMON_OPTIONS),
    "call-pedigree": _COMMON_OPTIONS + [("mcmc-burn", "fit", "annealing")],
    "call-exact": [],
}
DEFAULTS = {"mcmc-steps": 2000, "mcmc-chains": 2, "mcmc-seed": 42, "mcmc-burn": 1000, "mcmc-chain-incongruence-threshold": 0.6,
            "mcmc-fix-homozygous": 0.999, "mcmc-recombination-step-probability": 0.5,
            "mcmc-partial-dosage-step-probability": 0.5, "mcmc-dosage-step-probability": 1.0, "mcmc-llk-cache-threshold": 100,
            "haplotype-posterior-threshold": 0.2}


def nondefault_options(r, program):
    """a non-default value for every numeric sampler option of `program` (pairwise different probabilities, so that two
    options wired to each other's attribute are seen)"""
    probs = r.sample([0.15, 0.25, 0.35, 0.45, 0.55, 0.65, 0.75, 0.85, 0.9], 5)
    vals = {"mcmc-steps": r.choice([150, 200, 250]), "mcmc-burn": r.choice([50, 80, 100]), "mcmc-chains": r.choice([1, 3]),
            "mcmc-seed": r.randint(100, 10 ** 6), "mcmc-chain-incongruence-threshold": probs[0],
            "mcmc-fix-homozygous": r.choice([0.8, 0.9, 0.95, 1.0]), "mcmc-recombination-step-probability": probs[1],
            "mcmc-partial-dosage-step-probability": probs[2], "mcmc-dosage-step-probability": probs[3],
            "mcmc-llk-cache-threshold": r.choice([-1, 0, 37, 500]), "haplotype-posterior-threshold": probs[4]}
    out = {}
    for name, _, _ in OPTIONS[program]:
        out[name] = vals[name]
    return out


def option_argv(options):
    return [x for name, v in options.items() for x in ("--" + name, repr(v))]


# --------------------------------------------------------------------------------------
# recorder
# --------------------------------------------------------------------------------------

def _copy(x):
    if isinstance(x, np.ndarray):
        return np.array(x, copy=True)
    if isinstance(x, (list, tuple)):
        return [_copy(v) for v in x]
    return x


def _bind(orig, args, kwargs):
    f = getattr(orig, "py_func", orig)
    ba = inspect.signature(f).bind(*args, **kwargs)
    ba.apply_defaults()
    return dict(ba.arguments)


class Recorder:
    """records every model fit / array-function call of the programs while `active`; `obs` is a c10.Observer"""

    def __init__(self, obs):
        self.obs = obs
        self.events = []
        self.active = False
        self._restore = []

    # ---- bookkeeping
    def _event(self, site, fields, arrays):
        # the locus is the one whose reads were encoded last (single-core runs: encode, then call, locus by locus)
        ev = {"site": site, "locus_idx": len(self.obs.reads) - 1, "fields": fields, **arrays}
        self.events.append(ev)
        return ev

    def take(self):
        out, self.events = self.events, []
        return out

    # ---- installation
    def install(self):
        from mchap.assemble.mcmc import DenovoMCMC
        from mchap.calling.classes import CallingMCMC
        from mchap.pedigree.classes import PedigreeCallingMCMC
        from mchap.application import assemble, call, call_exact, call_pedigree
        rec = self

        def wrap_fit(cls, site, reads_arg, counts_arg):
            orig = cls.__dict__["fit"]

            def fit(self, *args, **kwargs):
                if rec.active:
                    try:
                        b = _bind(orig, (self,) + args, kwargs)
                        fields = {f.name: _copy(getattr(self, f.name)) for f in dataclasses.fields(self)}
                        rec._event(site, fields, {"reads": _copy(b.get(reads_arg)), "counts": _copy(b.get(counts_arg))})
                    except Exception as e:   # noqa: BLE001 - the call itself decides what happens
                        rec._event(site, {}, {"record_error": repr(e)})
                return orig(self, *args, **kwargs)

            cls.fit = fit
            rec._restore.append((cls, "fit", orig))

        def wrap_fn(module, name, site, has_reads=True):
            orig = getattr(module, name)

            def fn(*args, **kwargs):
                ev = None
                if rec.active:
                    try:
                        b = _bind(orig, args, kwargs)
                        fields = {k: _copy(v) for k, v in b.items() if k not in ("reads", "read_counts")}
                        ev = rec._event(site, fields, {"reads": _copy(b.get("reads")), "counts": _copy(b.get("read_counts"))}
                                        if has_reads else {})
                    except Exception as e:   # noqa: BLE001
                        rec._event(site, {}, {"record_error": repr(e)})
                res = orig(*args, **kwargs)
                if ev is not None and isinstance(res, np.ndarray):
                    ev["result"] = np.array(res, copy=True)
                return res

            setattr(module, name, fn)
            rec._restore.append((module, name, orig))

        def wrap_method(cls, name, site):
            orig = cls.__dict__[name]

            def method(self, *args, **kwargs):
                if rec.active:
                    try:
                        b = _bind(orig, (self,) + args, kwargs)
                        b.pop("self", None)
                        rec._event(site, {k: _copy(v) for k, v in b.items()}, {"owner": cls.__name__})
                    except Exception as e:   # noqa: BLE001
                        rec._event(site, {}, {"record_error": repr(e)})
                return orig(self, *args, **kwargs)

            setattr(cls, name, method)
            rec._restore.append((cls, name, orig))

        from mchap.assemble.classes import GenotypeMultiTrace
        from mchap.calling.classes import GenotypeAllelesMultiTrace
        from mchap.pedigree.classes import PedigreeAllelesMultiTrace
        for cls in (GenotypeMultiTrace, GenotypeAllelesMultiTrace, PedigreeAllelesMultiTrace):
            wrap_method(cls, "burn", "burn")
        for cls in (GenotypeMultiTrace, GenotypeAllelesMultiTrace):
            wrap_method(cls, "replicate_incongruence", "replicate_incongruence")
        wrap_fit(DenovoMCMC, "DenovoMCMC.fit", "reads", "read_counts")
        wrap_fit(CallingMCMC, "CallingMCMC.fit", "reads", "read_counts")
        wrap_fit(PedigreeCallingMCMC, "PedigreeCallingMCMC.fit", "sample_reads", "sample_read_counts")
        wrap_fn(assemble, "genotype_likelihoods", "assemble.genotype_likelihoods")
        wrap_fn(call, "genotype_likelihoods", "call.genotype_likelihoods")
        wrap_fn(call_pedigree, "genotype_likelihoods", "call_pedigree.genotype_likelihoods")
        wrap_fn(call_exact, "genotype_likelihoods", "call_exact.genotype_likelihoods")
        wrap_fn(call_exact, "genotype_posteriors", "call_exact.genotype_posteriors", has_reads=False)
        wrap_fn(call_exact, "posterior_mode", "call_exact.posterior_mode")
        self._orig_gl = [o for m, n, o in self._restore if m is call_exact and n == "genotype_likelihoods"][0]

    def uninstall(self):
        for owner, name, orig in reversed(self._restore):
            setattr(owner, name, orig)
        self._restore = []

    def own_likelihoods(self, reads, counts, ploidy, haplotypes):
        """log-likelihood of every genotype for the given reads, with the implementation's own (unwrapped) function"""
        return np.array(self._orig_gl(reads=reads, read_counts=counts, ploidy=ploidy, haplotypes=haplotypes))


# --------------------------------------------------------------------------------------
# comparison of recorded fields with what they should be
# --------------------------------------------------------------------------------------

def same_num(a, b, tol=TOL):
    try:
        return bool(abs(float(a) - float(b)) <= tol)      # NaN: False
    except (TypeError, ValueError):
        return False


def same_int_array(a, b):
    if a is None or b is None:
        return a is None and b is None
    a, b = np.asarray(a), np.asarray(b)
    return a.shape == b.shape and bool(np.array_equal(a, b))


def same_float_array(a, b, tol=TOL):
    """element-wise: equal (covers -inf) or within tol; a NaN on either side is a mismatch"""
    if a is None or b is None:
        return a is None and b is None
    a, b = np.asarray(a, dtype=float), np.asarray(b, dtype=float)
    if a.shape != b.shape:
        return False
    with np.errstate(invalid="ignore"):
        ok = (a == b) | (np.abs(a - b) <= tol * (1.0 + np.abs(b)))
    return bool(np.all(ok))


def same_reads(a, b):
    """identity of two encoded read arrays: same shape, the NaN gaps (part of the encoding) at the same places and
    every number identical"""
    if a is None or b is None:
        return False
    a, b = np.asarray(a, dtype=float), np.asarray(b, dtype=float)
    if a.shape != b.shape:
        return False
    na, nb = np.isnan(a), np.isnan(b)
    if not np.array_equal(na, nb):
        return False
    return bool(np.all(a[~na] == b[~nb]))


def same_counts(a, own):
    own = np.asarray(own)
    if a is None:
        return bool(np.all(own == 1))      # "every read once" is what None means
    a = np.asarray(a)
    return a.shape == own.shape and bool(np.array_equal(a, own))


def same_list(a, b):
    try:
        a, b = list(np.ravel(np.asarray(a, dtype=float))), list(np.ravel(np.asarray(b, dtype=float)))
    except (TypeError, ValueError):
        return False
    return len(a) == len(b) and all(same_num(x, y) for x, y in zip(a, b))


def describe(x):
    """JSON-friendly rendering of a recorded value"""
    if isinstance(x, np.ndarray):
        if x.size <= 12:
            return x.tolist()
        return {"shape": list(x.shape), "sha1": hashlib.sha1(np.ascontiguousarray(x).tobytes()).hexdigest()[:10]}
    if isinstance(x, (np.integer,)):
        return int(x)
    if isinstance(x, (np.floating,)):
        return float(x)
    if isinstance(x, (list, tuple)):
        return [describe(v) for v in x]
    return x


def masked_inputs(loc):
    """haplotypes / frequencies that call and call-pedigree hand to their samplers (zero-frequency and masked-reference
    alleles removed) for a locus record of the Observer"""
    haps, freqs = loc["haplotypes"], loc["frequencies"]
    mask = np.zeros(len(haps), bool)
    mask[0] = bool(loc.get("mask_ref", False))
    with np.errstate(invalid="ignore"):
        mask |= freqs == 0
    return haps[~mask], freqs[~mask]


def assign(mism):
    """mism[e][s] = list of wrong fields when call e is attributed to sample s; returns an injective assignment
    (tuple: sample index per call) without any wrong field, the identity first, or None"""
    n_e = len(mism)
    n_s = len(mism[0]) if mism else 0
    if n_e > n_s:
        return None
    ident = tuple(range(n_e))
    if all(not mism[e][ident[e]] for e in range(n_e)):
        return ident
    for perm in itertools.permutations(range(n_s), n_e):
        if all(not mism[e][perm[e]] for e in range(n_e)):
            return perm
    return None


def first_what(fields):
    for p in PRIORITY:
        if p in fields:
            return p
    return sorted(fields)[0] if fields else "calls"


class _Ctx:
    def __init__(self, chk, prop, program, truth, tag, rec):
        self.chk, self.prop, self.program, self.truth, self.tag, self.rec = chk, prop, program, truth, tag, rec

    def violation(self, text, case, what):
        self.chk.violation(f"{self.program}: {text}", {**self.tag, **case}, f"{self.prop}/plumbing/{self.program}/{what}")


def _site_check(ctx, loc, site, events, compare, need_all, observed):
    """attribute the calls of one site at one locus to the samples.

    compare(event, sample) -> list of wrong field names;  observed(event) -> dict for the report.
    need_all: the locus needs one call per sample at this site.  Returns True when everything is attributable."""
    order = loc["order"]
    chk = ctx.chk
    chk.count(f"plumbing:{ctx.program}:{site}", len(events))
    case0 = {"locus": loc["locus"], "site": site, "samples_in_program_order": order, "n_calls": len(events)}
    bad = [e for e in events if "record_error" in e]
    if bad:
        raise C.ProgramAbort(f"plumbing recorder could not bind a call of {site}: {bad[0]['record_error']}")
    if len(events) > len(order) or (need_all and len(events) != len(order)):
        ctx.violation(f"{len(events)} call(s) of {site} at locus {loc['locus']} for {len(order)} sample(s) "
                      f"(one per sample is needed: a sample has a called genotype)",
                      {**case0, "calls": [observed(e) for e in events]}, "calls")
        return False
    if not events:
        return True
    mism = [[compare(e, s) for s in order] for e in events]
    got = assign(mism)
    if got is not None:
        if got != tuple(range(len(events))):
            chk.count(f"plumbing:{ctx.program}:attributed-in-another-order")
        return True
    # diagnosis: in program order when there is one call per sample, else against the closest sample
    rows = []
    wrong = []
    for i, e in enumerate(events):
        if len(events) == len(order):
            j = i
        else:
            j = min(range(len(order)), key=lambda k: len(mism[i][k]))
        if mism[i][j]:
            wrong += mism[i][j]
            rows.append({"call": i, "attributed_to": order[j], "wrong_fields": mism[i][j], "recorded": observed(e),
                         "expected": ctx.expected_summary(loc, order[j]) if hasattr(ctx, "expected_summary") else None})
    what = first_what(set(wrong))
    ctx.violation(f"the calls of {site} at locus {loc['locus']} cannot be attributed to the samples: no assignment call -> sample "
                  f"gives every call that sample's own {'/'.join(sorted(set(wrong)))}",
                  {**case0, "mismatches": rows[:6]}, what)
    return False


def expected_summary(truth, loc, s):
    out = {"sample": s, "ploidy": truth["ploidy"].get(s), "inbreeding": truth["inbreeding"].get(s),
           "own_reads": describe(loc["arrays"][s][0]), "own_read_counts": describe(loc["arrays"][s][1])}
    if truth.get("temperatures") is not None:
        out["temperatures"] = truth["temperatures"].get(s)
    return out


def called_samples(record):
    """names of the samples of a parsed VCF record that have at least one called allele"""
    out = []
    for name, sd in zip(record["sample_names"], record["samples"]):
        gt = sd.get("GT", ".").replace("|", "/").split("/")
        if any(a != "." for a in gt):
            out.append(name)
    return out


# --------------------------------------------------------------------------------------
# the oracle
# --------------------------------------------------------------------------------------

def check_options(chk, prop, program, run, options, tag):
    """run-wide sampler options: every value given on the command line arrives where the sampler reads it.

    options = {flag without dashes: value given}; run as for `check_run` (+ "haps": Observer records of
    call_posterior_haplotypes)."""
    recs = {x["ID"]: x for x in run["records"]}
    any_called = any(called_samples(recs[loc["locus"]]) for loc in run["reads"] if loc["locus"] in recs)
    for name, kind, attr in OPTIONS[program]:
        if name not in options:
            continue
        want = options[name]
        if kind == "fit":
            got = [(e["locus_idx"], e["fields"].get(attr, "<no such attribute>")) for e in run["events"]
                   if e["site"] == FIT_SITE[program] and "record_error" not in e]
            where = f"attribute {attr} of the model object at {FIT_SITE[program]}"
        elif kind == "haps":
            got = [(i, h[0]) for i, h in enumerate(run.get("haps", []))]
            where = "threshold of call_posterior_haplotypes"
        else:
            got = [(e["locus_idx"], e["fields"].get(attr, "<no such argument>")) for e in run["events"]
                   if e["site"] == kind and "record_error" not in e]
            where = f"argument {attr} of trace.{kind}"
        chk.count(f"plumbing:{program}:option-{name}", len(got))
        chk.case({"kind": "plumbing-option", "dataset": tag.get("dataset"), "run": tag.get("run"), "program": program,
                  "option": name, "value": want}, bool(got) and not same_num(want, DEFAULTS.get(name)))
        case = {**tag, "option": "--" + name, "given": want, "default": DEFAULTS.get(name), "where": where}
        bad = [(k, describe(v)) for k, v in got if not same_num(v, want)]
        if bad:
            chk.violation(f"{program}: --{name} {want} does not reach the sampler: {where} is {bad[0][1]} "
                          f"({len(bad)} of {len(got)} calls)", {**case, "calls_with_another_value": bad[:6]},
                          f"{prop}/plumbing/{program}/option-{name}")
        elif not got and any_called:
            chk.violation(f"{program}: --{name} {want} is never used: no call of {where.split(' of ', 1)[1]} in a run that "
                          f"called genotypes", case, f"{prop}/plumbing/{program}/option-{name}")


def check_run(chk, prop, program, run, truth, tag, rec):
    """apply the plumbing oracle to one observed program run.

    run = {"records": parsed VCF records, "reads": Observer locus records, "events": Recorder events}
    truth = {"ploidy": {sample: int}, "inbreeding": {sample: float}, "temperatures": {sample: [float]} | None,
             "pedigree": {"parents": {s: (p|None, q|None)}, "tau": {s: (int, int)}, "lambda": {s: (f, f)}, "error": {s: (f, f)}} | None}"""
    ctx = _Ctx(chk, prop, program, truth, tag, rec)
    ctx.expected_summary = lambda loc, s: expected_summary(truth, loc, s)
    recs = {x["ID"]: x for x in run["records"]}
    for k, loc in enumerate(run["reads"]):
        order = loc["order"]
        events = [e for e in run["events"] if e["locus_idx"] == k]
        by_site = {}
        for e in events:
            by_site.setdefault(e["site"], []).append(e)
        record = recs.get(loc["locus"])
        valid = bool(record is not None and called_samples(record))
        fmt = set(loc.get("formatfields", []))
        chk.count(f"plumbing:{program}:locus-{'called' if valid else 'no-call'}")
        chk.case({"kind": "plumbing", "dataset": tag.get("dataset"), "run": tag.get("run"), "program": program,
                  "locus": loc["locus"], "k": k, "order": order}, valid and len(order) >= 2)
        # ---- what the program parsed for the samples of the run
        for s in order:
            if loc["ploidy"].get(s) != truth["ploidy"].get(s):
                ctx.violation(f"ploidy of sample {s} in the program ({loc['ploidy'].get(s)}) is not its line of the --ploidy file "
                              f"({truth['ploidy'].get(s)})", {"locus": loc["locus"], "sample": s}, "parsed-ploidy")
            if program != "call-pedigree" and not same_num(loc["inbreeding"].get(s), truth["inbreeding"].get(s)):
                ctx.violation(f"inbreeding of sample {s} in the program ({loc['inbreeding'].get(s)}) is not its line of the "
                              f"--inbreeding file ({truth['inbreeding'].get(s)})", {"locus": loc["locus"], "sample": s},
                              "parsed-inbreeding")

        def own(s):
            return loc["arrays"][s]

        def base(e, s, f, with_inbreeding=True, with_reads=True):
            w = []
            if with_reads:
                if not same_reads(e.get("reads"), own(s)[0]):
                    w.append("reads")
                if not same_counts(e.get("counts"), own(s)[1]):
                    w.append("read_counts")
            if not same_num(f.get("ploidy"), truth["ploidy"][s], 0):
                w.append("ploidy")
            if with_inbreeding and not same_num(f.get("inbreeding"), truth["inbreeding"][s]):
                w.append("inbreeding")
            return w

        def obs_scalar(e):
            f = e["fields"]
            out = {k2: describe(v) for k2, v in f.items()
                   if k2 in ("ploidy", "inbreeding", "temperatures", "steps", "chains", "random_seed", "n_alleles", "frequencies",
                             "sample_ploidy", "sample_inbreeding")}
            if "reads" in e:
                out["reads"] = describe(e["reads"]) if e["reads"] is not None else None
                out["read_counts"] = describe(e["counts"]) if e["counts"] is not None else None
            if "haplotypes" in f:
                out["haplotypes"] = describe(np.asarray(f["haplotypes"]))
            if "log_likelihoods" in f:
                out["log_likelihoods"] = describe(np.asarray(f["log_likelihoods"]))
            return out

        # ---- genotype_likelihoods of every program: own reads, own ploidy, all haplotypes of the record
        def gl_compare(full_haps):
            def cmp(e, s):
                f = e["fields"]
                w = base(e, s, f, with_inbreeding=False)
                if full_haps is None or not same_int_array(f.get("haplotypes"), full_haps):
                    w.append("haplotypes")
                return w
            return cmp

        if program == "assemble":
            def cmp_fit(e, s):
                f = e["fields"]
                w = base(e, s, f)
                if truth.get("temperatures") is not None and not same_list(f.get("temperatures"), truth["temperatures"][s]):
                    w.append("temperatures")
                if not same_list(f.get("n_alleles"), loc["n_alleles"]):
                    w.append("n_alleles")
                return w

            _site_check(ctx, loc, "DenovoMCMC.fit", by_site.get("DenovoMCMC.fit", []), cmp_fit, True, obs_scalar)
            _site_check(ctx, loc, "assemble.genotype_likelihoods", by_site.get("assemble.genotype_likelihoods", []),
                        gl_compare(loc.get("called_haplotypes")), "GL" in fmt, obs_scalar)
            continue

        full_haps, full_freqs = loc["haplotypes"], loc["frequencies"]
        if program in ("call", "call-pedigree"):
            m_haps, m_freqs = masked_inputs(loc)
            if len(m_haps) < len(full_haps):
                chk.count(f"plumbing:{program}:locus-with-masked-alleles")
        gl_site = {"call": "call.genotype_likelihoods", "call-exact": "call_exact.genotype_likelihoods",
                   "call-pedigree": "call_pedigree.genotype_likelihoods"}[program]

        if program == "call":
            def cmp_fit(e, s):
                f = e["fields"]
                w = base(e, s, f)
                if not same_int_array(f.get("haplotypes"), m_haps):
                    w.append("haplotypes")
                if not same_float_array(f.get("frequencies"), m_freqs):
                    w.append("frequencies")
                return w

            _site_check(ctx, loc, "CallingMCMC.fit", by_site.get("CallingMCMC.fit", []), cmp_fit, valid, obs_scalar)
            _site_check(ctx, loc, gl_site, by_site.get(gl_site, []), gl_compare(full_haps), valid and "GL" in fmt, obs_scalar)

        elif program == "call-exact":
            ev_gl = by_site.get(gl_site, [])
            ev_gp = by_site.get("call_exact.genotype_posteriors", [])
            ev_pm = by_site.get("call_exact.posterior_mode", [])
            # either path serves a sample: the streaming one, or likelihood array + posterior array
            arrays_path = bool(ev_gl or ev_gp) or not ev_pm
            if ("GL" in fmt or "GP" in fmt):
                chk.count("plumbing:call-exact:locus-with-GP/GL-requested")
            own_llk = {}

            def llk_of(s):
                if s not in own_llk:
                    own_llk[s] = rec.own_likelihoods(own(s)[0], own(s)[1], truth["ploidy"][s], full_haps)
                return own_llk[s]

            def cmp_gp(e, s):
                f = e["fields"]
                w = base(e, s, f, with_reads=False)
                try:
                    if not same_float_array(f.get("log_likelihoods"), llk_of(s), 1e-9):
                        w.append("log_likelihoods")
                except Exception:   # noqa: BLE001 - e.g. a ploidy the likelihood function rejects
                    w.append("log_likelihoods")
                if not same_num(f.get("n_alleles"), len(full_haps), 0):
                    w.append("n_alleles")
                if not same_float_array(f.get("frequencies"), full_freqs):
                    w.append("frequencies")
                return w

            def cmp_pm(e, s):
                f = e["fields"]
                w = base(e, s, f)
                if not same_int_array(f.get("haplotypes"), full_haps):
                    w.append("haplotypes")
                if not same_float_array(f.get("frequencies"), full_freqs):
                    w.append("frequencies")
                return w

            _site_check(ctx, loc, gl_site, ev_gl, gl_compare(full_haps), valid and arrays_path, obs_scalar)
            _site_check(ctx, loc, "call_exact.genotype_posteriors", ev_gp, cmp_gp, valid and arrays_path, obs_scalar)
            _site_check(ctx, loc, "call_exact.posterior_mode", ev_pm, cmp_pm, valid and not arrays_path, obs_scalar)

        elif program == "call-pedigree":
            ped = truth["pedigree"]
            fits = by_site.get("PedigreeCallingMCMC.fit", [])
            chk.count("plumbing:call-pedigree:PedigreeCallingMCMC.fit", len(fits))
            case0 = {"locus": loc["locus"], "site": "PedigreeCallingMCMC.fit", "samples_in_program_order": order}
            if any("record_error" in e for e in fits):
                raise C.ProgramAbort("plumbing recorder could not bind PedigreeCallingMCMC.fit")
            if len(fits) > 1 or (valid and len(fits) != 1):
                ctx.violation(f"{len(fits)} pedigree fits at locus {loc['locus']} (one is needed)", case0, "calls")
            for e in fits:
                f = e["fields"]
                n = len(order)
                try:
                    sp, si = np.asarray(f["sample_ploidy"]), np.asarray(f["sample_inbreeding"])
                    par, tau = np.asarray(f["sample_parents"]), np.asarray(f["gamete_tau"])
                    lam, err = np.asarray(f["gamete_lambda"]), np.asarray(f["gamete_error"])
                    reads, counts = np.asarray(e["reads"]), np.asarray(e["counts"])
                    shapes_ok = (sp.shape == (n,) and si.shape == (n,) and par.shape == (n, 2) and tau.shape == (n, 2)
                                 and lam.shape == (n, 2) and err.shape == (n, 2) and len(reads) == n and len(counts) == n)
                except Exception:   # noqa: BLE001
                    shapes_ok = False
                if not shapes_ok:
                    ctx.violation(f"the pedigree model at locus {loc['locus']} does not have one row per sample",
                                  {**case0, "recorded": {k2: describe(np.asarray(v)) for k2, v in f.items()
                                                         if k2.startswith(("sample_", "gamete_"))}}, "calls")
                    continue

                def row_wrong(i, s):
                    w = []
                    d, c = own(s)
                    m = len(d)
                    if not (reads[i].shape[0] >= m and same_reads(reads[i][:m], d) and bool(np.all(np.isnan(reads[i][m:])))):
                        w.append("reads")
                    if not (counts[i].shape[0] >= m and np.array_equal(counts[i][:m], c) and bool(np.all(counts[i][m:] == 0))):
                        w.append("read_counts")
                    if not same_num(sp[i], truth["ploidy"][s], 0):
                        w.append("ploidy")
                    if not same_num(si[i], 0.0):
                        w.append("inbreeding")     # the program has no --inbreeding: every sample 0.0
                    if not (same_list(tau[i], ped["tau"][s]) and same_list(lam[i], ped["lambda"][s])
                            and same_list(err[i], ped["error"][s])):
                        w.append("pedigree")
                    return w

                mism = [[row_wrong(i, s) for s in order] for i in range(n)]

                def parents_ok(perm):
                    pos = {order[perm[i]]: i for i in range(n)}
                    for i in range(n):
                        want = [(-1 if p is None else pos.get(p, -2)) for p in ped["parents"][order[perm[i]]]]
                        if [int(x) for x in par[i]] != want:
                            return False
                    return True

                ok = False
                cands = [tuple(range(n))] + [p for p in itertools.permutations(range(n)) if p != tuple(range(n))]
                for perm in cands:
                    if all(not mism[i][perm[i]] for i in range(n)) and parents_ok(perm):
                        ok = True
                        break
                if not ok:
                    wrong = [x for i in range(n) for x in mism[i][i]]
                    if not wrong and not parents_ok(tuple(range(n))):
                        wrong = ["pedigree"]
                    ctx.violation(f"the rows of the pedigree model at locus {loc['locus']} cannot be attributed to the samples "
                                  f"(wrong in program order: {sorted(set(wrong))})",
                                  {**case0, "rows": [{"row": i, "sample": order[i], "wrong": mism[i][i], "ploidy": int(sp[i]),
                                                      "inbreeding": float(si[i]), "parents": [int(x) for x in par[i]],
                                                      "tau": describe(tau[i]), "lambda": describe(lam[i]), "error": describe(err[i]),
                                                      "expected": {**expected_summary(truth, loc, order[i]),
                                                                   "parents": ped["parents"][order[i]], "tau": ped["tau"][order[i]],
                                                                   "lambda": ped["lambda"][order[i]], "error": ped["error"][order[i]]}}
                                                     for i in range(n) if mism[i][i]][:6]}, first_what(set(wrong)))
                w = []
                if not same_int_array(f.get("haplotypes"), m_haps):
                    w.append("haplotypes")
                if not same_float_array(f.get("frequencies"), m_freqs):
                    w.append("frequencies")
                if w:
                    ctx.violation(f"the pedigree model at locus {loc['locus']} is not given the locus' {'/'.join(w)}",
                                  {**case0, "recorded": obs_scalar(e)}, first_what(set(w)))
            _site_check(ctx, loc, gl_site, by_site.get(gl_site, []), gl_compare(full_haps), valid and "GL" in fmt, obs_scalar)


# --------------------------------------------------------------------------------------
# generator + driver
# --------------------------------------------------------------------------------------

def _shuffled_lines(r, lines):
    lines = list(lines)
    r.shuffle(lines)
    return "".join(l + "\n" for l in lines)


def _different_order(r, items):
    """a random order of `items` that differs from the given one (when there are >= 2 items)"""
    out = list(items)
    for _ in range(8):
        r.shuffle(out)
        if out != list(items):
            return out
    return list(reversed(items))


def _fmt(x):
    return repr(float(x))


def run_observed(obs, rec, argv):
    """(stdout, exit code, error text, Observer locus records, Observer call_posterior_haplotypes records, Recorder events)
    of one in-process run"""
    obs.active = True
    rec.active = True
    try:
        out, code, err = synth.run_program(argv)
    finally:
        obs.active = False
        rec.active = False
    reads, haps, _ = obs.take()
    return out, code, err, reads, haps, rec.take()


def run_plumbing(chk, r, work_dir, prop, programs=PROGRAMS, tier="quick", obs=None):
    """Build small datasets (3-4 samples, two of equal ploidy, mixed ploidy, 2 loci), write per-sample --ploidy /
    --inbreeding / --mcmc-temperatures / --gamete-* files (shuffled lines, pairwise different values, one sample that is
    not in the run), run assemble (--report GL GP AFP) and then the requested programs on its output, and apply
    `check_run`.  `programs` selects whose oracle is applied (assemble always runs: it provides the haplotypes).
    `work_dir`: an existing scratch directory, or None (a temporary one is made and removed).
    `obs`: an installed c10.Observer to share; by default one is installed for the duration of the call."""
    from . import c10 as _c10

    own_dir = work_dir is None
    if own_dir:
        work_dir = tempfile.mkdtemp(prefix="verif-plumbing-")
    own_obs = obs is None
    if own_obs:
        obs = _c10.Observer()
        obs.install()
    rec = Recorder(obs)
    try:
        rec.install()
        n_datasets = {"warm": 1, "quick": 2, "thorough": 12}[tier]
        for d in range(n_datasets):
            _one_dataset(chk, r, os.path.join(work_dir, f"plumbing{d}"), prop, programs, tier, obs, rec, d)
    finally:
        rec.uninstall()
        if own_obs:
            obs.uninstall()
        if own_dir:
            shutil.rmtree(work_dir, ignore_errors=True)


def _one_dataset(chk, r, work, prop, programs, tier, obs, rec, d):
    n_samples = 3 if d % 2 == 0 else 4
    ploidies = [(2, 4), (2, 4), (2, 3), (4, 6), (3, 4)][d % 5]
    ds = synth.make_dataset(r, os.path.join(work, "ds"), n_samples=n_samples, n_loci=2 if d == 0 else 3, ploidies=ploidies,
                            max_snvs=3, depth=(4, 12), contig_len=420,
                            features=frozenset() if d == 0 else frozenset(r.sample(["mates", "nodepth", "lowqual"], 1)))
    S = ds.samples
    run_order = _different_order(r, S)                     # order of the --bam arguments = order of data.samples
    by_pl = {}
    for s in S:
        by_pl.setdefault(ds.ploidy[s], []).append(s)
    if any(len(v) >= 2 for v in by_pl.values()):
        chk.count("plumbing:dataset:two-samples-of-equal-ploidy")
    # ---- pairwise different per-sample values, files in an order that differs from the run's, plus a stranger
    pool_f = [0.0, 0.02, 0.05, 0.1, 0.15, 0.2, 0.3, 0.4, 0.55, 0.7]
    fs = r.sample(pool_f, n_samples + 1)
    if fs[0] == 0.0:                                       # the first sample of the run gets F > 0
        fs[0], fs[1] = fs[1], fs[0]
    inbreeding = {s: fs[i] for i, s in enumerate(run_order)}
    file_order = _different_order(r, run_order)
    lines_f = [f"{s}\t{_fmt(inbreeding[s])}" for s in file_order]
    lines_f.insert(r.randint(0, len(lines_f)), f"{EXTRA_SAMPLE}\t{_fmt(fs[-1])}")
    if [l.split("\t")[0] for l in lines_f][:n_samples] == run_order:
        lines_f = list(reversed(lines_f))
    f_file = synth.write_text(os.path.join(work, "inbreeding.tsv"), "".join(l + "\n" for l in lines_f))
    lines_p = [f"{s}\t{ds.ploidy[s]}" for s in _different_order(r, run_order)]
    lines_p.insert(r.randint(0, len(lines_p)), f"{EXTRA_SAMPLE}\t{r.choice([2, 3, 4, 6, 8])}")
    p_file = synth.write_text(os.path.join(work, "ploidy.tsv"), "".join(l + "\n" for l in lines_p))
    # temperatures: a different number per sample, one sample of the run not listed (default: no tempering); the program
    # rejects a file that lists a sample outside the run, so no stranger here
    temps_raw = {}
    t_choices = [[0.5], [0.3, 0.7], [0.2, 0.6, 1.0], [0.9, 0.4]]
    r.shuffle(t_choices)
    for i, s in enumerate(run_order[:-1]):
        temps_raw[s] = t_choices[i % len(t_choices)]
    temperatures = {s: [1.0] for s in run_order}
    for s, t in temps_raw.items():
        tt = sorted(t)
        if tt[-1] != 1.0:
            tt.append(1.0)
        temperatures[s] = tt
    t_file = synth.write_text(os.path.join(work, "temperatures.tsv"), _shuffled_lines(
        r, [s + "\t" + "\t".join(_fmt(x) for x in t) for s, t in temps_raw.items()]))
    chk.count("plumbing:dataset")
    chk.count(f"plumbing:dataset:ploidies={sorted(set(ds.ploidy.values()))}")
    chk.count("plumbing:files:line-order-differs-from-bam-order+stranger")

    bams = [ds.sample_bam[s] for s in run_order]
    truth = {"ploidy": dict(ds.ploidy), "inbreeding": inbreeding, "temperatures": temperatures, "pedigree": None}
    tag0 = {"dataset": d, "bam_order": run_order, "ploidy": dict(ds.ploidy), "inbreeding": inbreeding,
            "inbreeding_file_lines": lines_f, "ploidy_file_lines": lines_p, "temperatures": temps_raw}

    def go(program, argv, truth_, what, apply=True, options=None):
        """one observed run; `options`: the non-default sampler options that are appended to argv and checked"""
        options = options or {}
        argv = list(argv) + option_argv(options)
        tag = {**tag0, "run": what, "argv": [str(a) for a in argv[1:]]}
        out, code, err, reads, haps, events = run_observed(obs, rec, argv)
        if code != 0:
            chk.violation(f"{program}: the run with per-sample parameter files and non-default sampler options failed: {err[:400]}",
                          tag, f"{prop}/plumbing/{program}/run-failed")
            return None
        _, records = synth.parse_vcf_text(out)
        chk.count(f"plumbing:run:{what}")
        if apply:
            run = {"records": records, "reads": reads, "haps": haps, "events": events}
            check_run(chk, prop, program, run, truth_, tag, rec)
            check_options(chk, prop, program, run, options, tag)
        return out

    # ---- assemble (always: it provides the haplotypes)
    asm = ["mchap", "assemble", "--bam", *bams, "--ploidy", p_file, "--inbreeding", f_file, "--mcmc-temperatures", t_file,
           "--targets", ds.bed, "--variants", ds.snv_vcf, "--reference", ds.fasta, "--report", "GL", "GP", "AFP"]
    out = go("assemble", asm, truth, "assemble --report GL GP AFP", apply="assemble" in programs,
             options=nondefault_options(r, "assemble"))
    if out is None:
        return
    hv = synth.bgzip_tabix_vcf(synth.write_text(os.path.join(work, "haps.vcf"), out))
    prior = ["--prior-frequencies", "AFP"]
    # the same haplotypes with user-supplied, very skewed prior frequencies: tiny but non-zero values (1e-9, 1e-12, 1e-300)
    # and exact zeros; only an exact zero removes an allele from the samplers' state space
    skew_lines, n_tiny = [], 0
    for line in out.split("\n"):
        f = line.split("\t")
        if not line.startswith("#") and len(f) > 8 and f[4] != "." and "AFP=" in f[7]:
            info = f[7].split(";")
            k = next(i for i, t in enumerate(info) if t.startswith("AFP="))
            vals = info[k][4:].split(",")
            if len(vals) >= 2 and any(float(v) > 0 for v in vals):
                top = max(range(len(vals)), key=lambda i: float(vals[i]))
                rest = [i for i in range(1, len(vals)) if i != top] or [i for i in range(len(vals)) if i != top]
                vals[r.choice(rest)] = ["1e-09", "1e-12", "0.000000001", "1e-30", "0"][n_tiny % 5]
                n_tiny += 1
                info[k] = "AFP=" + ",".join(vals)
                f[7] = ";".join(info)
                line = "\t".join(f)
        skew_lines.append(line)
    hv_skew = synth.bgzip_tabix_vcf(synth.write_text(os.path.join(work, "haps.skew.vcf"), "\n".join(skew_lines))) if n_tiny else None

    def call_argv(program, *extra):
        a = ["mchap", program, "--bam", *bams, "--ploidy", p_file, "--haplotypes", hv]
        if program != "call-pedigree":
            a += ["--inbreeding", f_file]
        return a + list(extra)

    if "call" in programs:
        go("call", call_argv("call", "--report", "GP", "GL", *(prior if r.random() < 0.5 else [])), truth,
           "call --report GP GL", options=nondefault_options(r, "call"))
        if tier == "thorough":
            go("call", call_argv("call"), truth, "call", options=nondefault_options(r, "call"))
        if hv_skew:
            a = call_argv("call", *prior)
            a[a.index("--haplotypes") + 1] = hv_skew
            go("call", a, truth, "call --prior-frequencies (tiny non-zero priors)", options=nondefault_options(r, "call"))
    if "call-exact" in programs:
        go("call-exact", call_argv("call-exact", *(prior if r.random() < 0.5 else [])), truth, "call-exact")
        go("call-exact", call_argv("call-exact", "--report", *r.choice([["GP"], ["GL"], ["GP", "GL"], ["GP", "GL", "AFP"]]),
                                   *(prior if r.random() < 0.5 else [])), truth, "call-exact --report GP/GL")
    if "call-pedigree" in programs:
        # parents precede their children in the dataset order; gamete ploidies sum to the ploidy; a non-zero IBD excess is
        # only legal for diploid gametes; error terms pairwise different
        parents, tau, lam, err = {}, {}, {}, {}
        errs = r.sample([0.001, 0.005, 0.01, 0.02, 0.03, 0.05, 0.08, 0.1, 0.12, 0.15], 2 * n_samples)
        for i, s in enumerate(S):
            cands = S[:i]
            p = r.choice(cands) if cands and r.random() < 0.8 else None
            q = r.choice(cands) if cands and r.random() < 0.6 else None
            parents[s] = (p, q)
            pl = ds.ploidy[s]
            tau[s] = (pl // 2, pl - pl // 2)
            lam[s] = tuple((r.choice([0.0, 0.05, 0.1, 0.2]) if t == 2 else 0.0) for t in tau[s])
            err[s] = (errs[2 * i], errs[2 * i + 1])
        dot = lambda x: "." if x is None else x   # noqa: E731
        ped_f = synth.write_text(os.path.join(work, "parents.tsv"),
                                 _shuffled_lines(r, [f"{s}\t{dot(parents[s][0])}\t{dot(parents[s][1])}" for s in S]))
        tau_f = synth.write_text(os.path.join(work, "tau.tsv"), _shuffled_lines(
            r, [f"{s}\t{tau[s][0]}\t{tau[s][1]}" for s in S] + [f"{EXTRA_SAMPLE}\t1\t1"]))
        lam_f = synth.write_text(os.path.join(work, "lambda.tsv"), _shuffled_lines(
            r, [f"{s}\t{_fmt(lam[s][0])}\t{_fmt(lam[s][1])}" for s in S] + [f"{EXTRA_SAMPLE}\t0.0\t0.0"]))
        err_f = synth.write_text(os.path.join(work, "error.tsv"), _shuffled_lines(
            r, [f"{s}\t{_fmt(err[s][0])}\t{_fmt(err[s][1])}" for s in S] + [f"{EXTRA_SAMPLE}\t0.5\t0.5"]))
        truth_p = {**truth, "temperatures": None,
                   "pedigree": {"parents": parents, "tau": tau, "lambda": lam, "error": err}}
        a = call_argv("call-pedigree", "--sample-parents", ped_f, "--gamete-ploidy", tau_f, "--gamete-ibd", lam_f,
                      "--gamete-error", err_f, "--report", "GL", *(prior if r.random() < 0.5 else []))
        if hv_skew and "--prior-frequencies" in a:
            a[a.index("--haplotypes") + 1] = hv_skew
            chk.count("plumbing:call-pedigree:tiny-non-zero-priors")
        go("call-pedigree", a, truth_p, "call-pedigree --report GL", options=nondefault_options(r, "call-pedigree"))
