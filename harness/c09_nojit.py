"""Runs the three samplers as plain Python (NUMBA_DISABLE_JIT=1) with their cached likelihood wrappers
monitored, and prints one JSON document.  Started by harness/c09.py in a subprocess:

    NUMBA_DISABLE_JIT=1 python -m harness.c09_nojit <seed> <scale>

For every call of a cached wrapper the served value is compared with a fresh `log_likelihood` of the
genotype concerned (and, for the pedigree sampler, with that sample's own reads); trajectories for
one seed are compared across cache = none / tiny (repeated growth + flushes) / large.
"""
from __future__ import annotations

import json
import math
import random
import sys

import numpy as np


def close(a, b):
    if math.isnan(a) or math.isnan(b):
        return math.isnan(a) and math.isnan(b)
    if math.isinf(a) or math.isinf(b):
        return a == b
    return abs(a - b) <= 1e-9 * (1 + abs(a))


def scatter_rows(r, G, dists, cnts, n_alleles):
    """per sample: about half of the zero-count rows get a genuine-looking distribution (a legal read observed 0 times)
    instead of NaN, then the read rows are permuted, so zero-count rows sit anywhere and not only at the tail.
    Returns (#samples with a zero-count row before a positive-count row, #samples without any read)."""
    S, R = cnts.shape
    interleaved = empty = 0
    for s in range(S):
        for k in range(R):
            if cnts[s, k] == 0 and r.random() < 0.5:
                dists[s, k] = G.gen_reads(r, n_alleles, 1, haps=None, gap=0.0, style="encoded")[0][0]
        perm = list(range(R)); r.shuffle(perm)
        dists[s] = dists[s][perm].copy(); cnts[s] = cnts[s][perm].copy()
        pos = [k for k in range(R) if cnts[s, k] > 0]
        if not pos:
            empty += 1
        elif any(cnts[s, k] == 0 for k in range(pos[-1])):
            interleaved += 1
    return interleaved, empty


def main():
    seed = int(sys.argv[1]); scale = float(sys.argv[2])
    sys.path.insert(0, __import__("os").environ.get("MCHAP_REPO", "/repo"))
    from harness import gen as G
    r = random.Random(f"c09-nojit:{seed}")
    out = {"assemble": [], "calling": [], "pedigree": [], "swap": [], "bad": []}

    # ------------------------------------------------------------------ assemble
    from mchap.assemble import mcmc as amcmc, mutation, structural, arraymap
    from mchap.assemble import likelihood as alik
    from mchap.jitutils import structural_change

    stats = {"served": 0, "hits": 0, "flushes": 0, "growths": 0}
    orig_cached = alik.log_likelihood_cached
    orig_scached = alik.log_likelihood_structural_change_cached
    orig_set = arraymap.set

    def mon_set(array_map, array, value, empty_if_full=False):
        res = orig_set(array_map, array, value, empty_if_full=empty_if_full)
        if array_map is not None and res is not None:
            if res[3] == 1 and res[4] == 0:
                stats["flushes"] += 1
            elif len(res[0]) > len(array_map[0]) or len(res[1]) > len(array_map[1]):
                stats["growths"] += 1
        return res

    def mon_cached(reads, genotype, read_counts=None, cache=None):
        if cache is not None and not math.isnan(arraymap.get(cache, genotype.ravel())):
            stats["hits"] += 1
        llk, cache2 = orig_cached(reads, genotype, read_counts=read_counts, cache=cache)
        stats["served"] += 1
        fresh = alik.log_likelihood(reads, genotype, read_counts=read_counts)
        if not close(float(llk), float(fresh)):
            out["bad"].append({"where": "assemble/log_likelihood_cached", "genotype": genotype.tolist(), "served": float(llk), "fresh": float(fresh)})
        return llk, cache2

    def mon_scached(reads, genotype, haplotype_indices, interval=None, read_counts=None, cache=None):
        g2 = genotype.copy()
        structural_change(g2, haplotype_indices, interval)
        if cache is not None and not math.isnan(arraymap.get(cache, g2.ravel())):
            stats["hits"] += 1
        llk, cache2 = orig_scached(reads, genotype, haplotype_indices, interval=interval, read_counts=read_counts, cache=cache)
        stats["served"] += 1
        fresh = alik.log_likelihood(reads, g2, read_counts=read_counts)
        if not close(float(llk), float(fresh)):
            out["bad"].append({"where": "assemble/log_likelihood_structural_change_cached", "genotype": g2.tolist(), "served": float(llk), "fresh": float(fresh)})
        return llk, cache2

    arraymap.set = mon_set
    alik.arraymap = arraymap
    mutation.log_likelihood_cached = mon_cached
    structural.log_likelihood_structural_change_cached = mon_scached
    orig_new = amcmc.new_log_likelihood_cache
    n_asm = max(1, int(3 * scale))
    for it in range(n_asm):
        ploidy = r.choice([2, 3, 4]); nb = r.randint(2, 4)
        n_alleles = [r.choice([2, 2, 3]) for _ in range(nb)]
        truth = G.gen_genotype(r, ploidy, n_alleles, dup=0.3)
        reads, counts = G.gen_reads(r, n_alleles, r.randint(3, 8), haps=truth, gap=0.2, style="encoded")
        temps = np.array([0.3, 1.0]) if r.random() < 0.7 else np.array([1.0])
        if it % 3 == 2:
            counts = None        # read_counts=None: every row is one observation
        traces = {}
        for mode in ("none", "tiny", "large"):
            if mode == "tiny":
                amcmc.new_log_likelihood_cache = lambda p, n, max_alleles, max_size=2 ** 16: arraymap.new(p * n, max_alleles, initial_size=4, max_size=32)
            else:
                amcmc.new_log_likelihood_cache = orig_new
            before = dict(stats)
            np.random.seed(1234 + it)
            g0 = np.array(truth, dtype=np.int8)
            break_dist = amcmc._point_beta_probabilities(nb, 1.0, 3.0)
            gt, lt = amcmc._denovo_assembler(
                genotype=g0, inbreeding=0.1, reads=reads, read_counts=counts, n_alleles=np.array(n_alleles, dtype=np.int8),
                steps=int(12 * max(1, scale)), break_dist=break_dist, recombination_step_probability=0.5,
                partial_dosage_step_probability=0.5, dosage_step_probability=1.0, temperatures=temps,
                return_heated_trace=True, llk_cache_threshold=(-1 if mode == "none" else 0))
            traces[mode] = (gt.tolist(), lt.tolist())
            # carried llk == recomputed, every chain, every step
            for t in range(gt.shape[0]):
                for s in range(gt.shape[1]):
                    fresh = float(alik.log_likelihood(reads, gt[t, s], read_counts=counts))
                    if not close(float(lt[t, s]), fresh):
                        out["bad"].append({"where": f"assemble/trace-llk cache={mode}", "chain": t, "step": s, "genotype": gt[t, s].tolist(),
                                           "carried": float(lt[t, s]), "fresh": fresh})
            out["assemble"].append({"mode": mode, "ploidy": ploidy, "n_base": nb, "temps": temps.tolist(), "read_counts_none": counts is None,
                                    "served": stats["served"] - before["served"], "hits": stats["hits"] - before["hits"],
                                    "flushes": stats["flushes"] - before["flushes"], "growths": stats["growths"] - before["growths"]})
        for mode in ("tiny", "large"):
            if traces[mode][0] != traces["none"][0]:
                out["bad"].append({"where": f"assemble/trajectory differs between cache=none and cache={mode}", "ploidy": ploidy, "n_alleles": n_alleles})
    amcmc.new_log_likelihood_cache = orig_new
    arraymap.set = orig_set

    # ------------------------------------------------------------------ calling
    from mchap.calling import mcmc as cmcmc
    from mchap.calling.likelihood import log_likelihood_alleles
    n_call = max(1, int(4 * scale))
    for it in range(n_call):
        nb = r.randint(1, 4); n_alleles = [r.choice([2, 3]) for _ in range(nb)]
        haps = []
        for _ in range(12):
            h = G.gen_haplotype(r, n_alleles)
            if h not in haps:
                haps.append(h)
            if len(haps) == 4:
                break
        if len(haps) < 2:
            continue
        harr = np.array(haps, dtype=np.int8)
        ploidy = r.choice([2, 4])
        reads, counts = G.gen_reads(r, n_alleles, r.randint(2, 6), haps=[r.choice(haps) for _ in range(ploidy)], style="encoded")
        if it % 4 == 3:
            counts = None
        res = {}
        for st in (0, 1):
            for cache in (False, True):
                np.random.seed(99 + it)
                g0 = np.zeros(ploidy, dtype=np.int64)
                gt, lt = cmcmc.mcmc_sampler(g0, harr, reads, counts, 0.1, frequencies=None, n_steps=int(25 * max(1, scale)), cache=cache, step_type=st)
                res[(st, cache)] = gt.tolist()
                for s in range(len(gt)):
                    fresh = float(log_likelihood_alleles(reads, counts, harr, gt[s]))
                    if not close(float(lt[s]), fresh):
                        out["bad"].append({"where": f"calling/trace-llk step_type={st} cache={cache}", "step": s, "alleles": gt[s].tolist(),
                                           "carried": float(lt[s]), "fresh": fresh})
            if res[(st, False)] != res[(st, True)]:
                out["bad"].append({"where": f"calling/trajectory differs with cache on/off (step_type={st})"})
            out["calling"].append({"step_type": st, "ploidy": ploidy, "n_haps": len(haps), "read_counts_none": counts is None})

    # ------------------------------------------------------------------ pedigree
    from mchap.pedigree import mcmc as pmcmc
    from mchap.pedigree import likelihood as plik
    from mchap.assemble.likelihood import log_likelihood
    from mchap.jitutils import index_as_genotype_alleles
    orig_ped = plik.log_likelihood_alleles_cached
    ctx = {}

    def mon_ped(reads, read_counts, haplotypes, sample, genotype_alleles, cache=None):
        llk = orig_ped(reads, read_counts, haplotypes, sample, genotype_alleles, cache=cache)
        own_r, own_c = ctx["dists"][sample], ctx["counts"][sample]
        idx = own_c > 0
        fresh = float(log_likelihood(own_r[idx], haplotypes[np.sort(genotype_alleles)], read_counts=own_c[idx]))
        ctx["served"] += 1
        if not close(float(llk), fresh):
            pos = np.where(own_c > 0)[0]
            ctx["bad"].append({"sample": int(sample), "alleles": [int(x) for x in genotype_alleles], "served": float(llk), "fresh": fresh,
                               "sample_read_counts": [int(x) for x in own_c],
                               "zero_count_row_before_a_positive_one": bool(len(pos) and (own_c[:pos[-1]] == 0).any())})
        return llk

    pmcmc.log_likelihood_alleles_cached = mon_ped
    n_ped = max(1, int(3 * scale))
    for it in range(n_ped):
        nb = r.randint(1, 3); n_alleles = [2] * nb
        haps = []
        for _ in range(12):
            h = G.gen_haplotype(r, n_alleles)
            if h not in haps:
                haps.append(h)
            if len(haps) == 3:
                break
        if len(haps) < 2:
            continue
        harr = np.array(haps, dtype=np.int8)
        n = len(haps)
        ploidy = 2
        # trio: parents 0 and 1 with different numbers of distinct reads, child 2
        # (a sample may have no read at all; the read rows of every sample are permuted so that zero-count rows precede
        # positive-count rows: both are legal inputs of mcmc_sampler / PedigreeCallingMCMC.fit)
        n_reads = [r.randint(0, 3), r.randint(4, 7), r.choice([0, 2, 3, 4, 5])]
        if r.random() < 0.5:
            n_reads[0], n_reads[1] = n_reads[1], n_reads[0]
        R = max(n_reads) + r.randint(0, 2)
        dists = np.full((3, R, nb, 2), np.nan); cnts = np.zeros((3, R), dtype=np.int64)
        geno = np.array([[r.randrange(n) for _ in range(ploidy)] for _ in range(3)], dtype=np.int64)
        for s in range(3):
            rd, ct = G.gen_reads(r, n_alleles, n_reads[s], haps=[haps[a] for a in geno[s]], gap=0.0, style="encoded")
            dists[s, :n_reads[s]] = rd; cnts[s, :n_reads[s]] = ct
        layout = scatter_rows(r, G, dists, cnts, n_alleles)
        parents = np.array([[-1, -1], [-1, -1], [0, 1]], dtype=np.int64)
        tau = np.array([[1, 1]] * 3, dtype=np.int64); lam = np.zeros((3, 2)); err = np.full((3, 2), 0.01)
        logf = np.log(np.full(n, 1.0 / n))
        ctx.update({"dists": dists, "counts": cnts, "served": 0, "bad": []})
        for st in (0, 1):      # Gibbs and Metropolis-Hastings allele updates
            np.random.seed(5 + it + 1000 * st)
            pmcmc.mcmc_sampler(geno, np.full(3, ploidy, dtype=np.int64), parents, tau, lam, err, dists, cnts, harr, logf,
                               n_steps=int(6 * max(1, scale)), annealing=0, step_type=st, swap_parental_alleles=True)
        out["pedigree"].append({"n_reads": n_reads, "served": ctx["served"], "incoherent": len(ctx["bad"]), "first": ctx["bad"][:2],
                                "rows_interleaved": layout[0], "samples_without_reads": layout[1]})
        for b in ctx["bad"][:3]:
            out["bad"].append({"where": "pedigree/served-value", "n_reads": n_reads, "p_more_reads_than_q": n_reads[0] > n_reads[1], **b})

        # mixed ploidy, every listing order of the individuals: one cache shared by samples whose genotype spaces differ
        # in size (a tetraploid and a diploid founder, their triploid progeny, a second diploid founder, the
        # diploid progeny of the two diploids)
        base_tau = {"T": (2, 2), "D": (1, 1), "C": (2, 1), "E": (1, 1), "K": (1, 1)}
        base_par = {"T": (None, None), "D": (None, None), "C": ("T", "D"), "E": (None, None), "K": ("D", "E")}
        names = list(base_tau)
        r.shuffle(names)
        pos = {nm: i for i, nm in enumerate(names)}
        N = len(names)
        tau5 = np.array([base_tau[nm] for nm in names], dtype=np.int64)
        pl5 = tau5.sum(axis=1)
        par5 = np.array([[-1 if q is None else pos[q] for q in base_par[nm]] for nm in names], dtype=np.int64)
        mp = int(pl5.max())
        n_reads5 = [r.choice([0, 1, 2, 3, 4, 5, 6]) for _ in range(N)]
        R5 = max(1, max(n_reads5) + r.randint(0, 2))
        dists5 = np.full((N, R5, nb, 2), np.nan); cnts5 = np.zeros((N, R5), dtype=np.int64)
        geno5 = np.full((N, mp), -2, dtype=np.int64)
        for s_ in range(N):
            geno5[s_, :pl5[s_]] = [r.randrange(n) for _ in range(pl5[s_])]
            rd, ct = G.gen_reads(r, n_alleles, n_reads5[s_], haps=[haps[a] for a in geno5[s_, :pl5[s_]]], gap=0.0, style="encoded")
            dists5[s_, :n_reads5[s_]] = rd; cnts5[s_, :n_reads5[s_]] = ct
        layout5 = scatter_rows(r, G, dists5, cnts5, n_alleles)
        ctx.update({"dists": dists5, "counts": cnts5, "served": 0, "bad": []})
        for st in (0, 1):
            np.random.seed(11 + it + 1000 * st)
            pmcmc.mcmc_sampler(geno5, pl5, par5, tau5, np.zeros((N, 2)), np.full((N, 2), 0.05), dists5, cnts5, harr, logf,
                               n_steps=int(7 * max(1, scale)), annealing=0, step_type=st, swap_parental_alleles=True)
        out["pedigree"].append({"order": names, "ploidies": [int(x) for x in pl5], "n_reads": n_reads5, "served": ctx["served"],
                                "incoherent": len(ctx["bad"]), "first": ctx["bad"][:2],
                                "rows_interleaved": layout5[0], "samples_without_reads": layout5[1]})
        for b in ctx["bad"][:3]:
            out["bad"].append({"where": "pedigree/served-value (mixed ploidy)", "order": names, "ploidies": [int(x) for x in pl5],
                               "n_reads": n_reads5, **b})
        # caller-supplied cache audited after swap steps of EVERY parental pair of the mixed-ploidy family
        # (the pairs have different ploidies: T x D and D x E)
        children5 = pmcmc.sample_children_matrix(par5)
        pairs5, blankets5 = pmcmc.parental_pair_markov_blankets(par5, children5)
        z5 = lambda: np.zeros(mp, dtype=np.int64)
        for j5 in range(len(pairs5)):
            p5, q5 = int(pairs5[j5, 0]), int(pairs5[j5, 1])
            cache5 = {(-1, -1): np.nan}
            g5 = geno5.copy()
            decided = 0
            for attempt in range(8):
                if attempt % 2 == 1:   # make sure the pair does not hold the same haplotypes only
                    g5[p5, :pl5[p5]] = [r.randrange(n) for _ in range(pl5[p5])]
                    g5[q5, :pl5[q5]] = [r.randrange(n) for _ in range(pl5[q5])]
                np.random.seed(100 * it + 10 * j5 + attempt)
                ctx.update({"served": 0, "bad": []})
                pa, _acc = pmcmc.pair_allele_swap_step(
                    p=p5, q=q5, markov_blanket=blankets5[j5], sample_genotypes=g5, sample_ploidy=pl5, sample_parents=par5, gamete_tau=tau5,
                    gamete_lambda=np.zeros((N, 2)), gamete_error=np.full((N, 2), 0.05), sample_read_dists=dists5, sample_read_counts=cnts5,
                    haplotypes=harr, log_frequencies=logf, llk_cache=cache5, dosage=z5(), dosage_p=z5(), dosage_q=z5(), gamete_p=z5(),
                    gamete_q=z5(), constraint_p=z5(), constraint_q=z5(), dosage_log_frequencies=np.zeros(mp))
                decided += 0 if (isinstance(pa, float) and math.isnan(pa)) else 1
                for b in ctx["bad"][:2]:
                    out["bad"].append({"where": "pedigree/served-value (mixed ploidy)", "order": names, "ploidies": [int(x) for x in pl5],
                                       "n_reads": n_reads5, "in": "pair_allele_swap_step", "pair": [p5, q5], **b})
            entries5 = [(k, v) for k, v in cache5.items() if isinstance(k, tuple) and len(k) == 2 and k[0] >= 0]
            n_bad5 = 0
            for (s_, gi), v in entries5:
                al = index_as_genotype_alleles(gi, int(pl5[s_]))
                idx = cnts5[s_] > 0
                fresh = float(log_likelihood(dists5[s_][idx], harr[al], read_counts=cnts5[s_][idx]))
                if not close(float(v), fresh):
                    n_bad5 += 1
                    out["bad"].append({"where": "pedigree/swap-cache-entry (mixed ploidy)", "sample": int(s_), "alleles": al.tolist(),
                                       "cached": float(v), "fresh": fresh, "ploidies": [int(x) for x in pl5], "n_reads": n_reads5,
                                       "pair": [p5, q5], "order": names})
            out["swap"].append({"family": "mixed", "pair": [p5, q5], "pair_ploidies": [int(pl5[p5]), int(pl5[q5])], "decided": decided,
                                "entries": len(entries5), "incoherent": n_bad5, "seed_it": it})
        ctx.update({"dists": dists, "counts": cnts, "served": 0, "bad": []})

        # caller-supplied cache after one swap step
        cache = {(-1, -1): np.nan}
        g2 = geno.copy()
        if g2[0, 0] == g2[1, 0]:
            g2[1, 0] = (g2[1, 0] + 1) % n
        children = pmcmc.sample_children_matrix(parents)
        pairs, blankets = pmcmc.parental_pair_markov_blankets(parents, children)
        z = lambda: np.zeros(ploidy, dtype=np.int64)
        np.random.seed(3)
        ctx.update({"served": 0, "bad": []})
        pmcmc.pair_allele_swap_step(p=pairs[0, 0], q=pairs[0, 1], markov_blanket=blankets[0], sample_genotypes=g2,
                                    sample_ploidy=np.full(3, ploidy, dtype=np.int64), sample_parents=parents, gamete_tau=tau, gamete_lambda=lam,
                                    gamete_error=err, sample_read_dists=dists, sample_read_counts=cnts, haplotypes=harr, log_frequencies=logf,
                                    llk_cache=cache, dosage=z(), dosage_p=z(), dosage_q=z(), gamete_p=z(), gamete_q=z(), constraint_p=z(),
                                    constraint_q=z(), dosage_log_frequencies=np.zeros(ploidy))
        n_bad = 0
        entries = [(k, v) for k, v in cache.items() if isinstance(k, tuple) and len(k) == 2]
        if len(entries) != len(cache):
            # the key format is not (sample, genotype index): the entries cannot be decoded here; the served-value
            # monitors above are what covers the cache then
            out.setdefault("notes", []).append("pedigree cache keys are not (sample, genotype) pairs: entry audit skipped")
            entries = []
        for (s, gi), v in entries:
            if s < 0:
                continue
            al = index_as_genotype_alleles(gi, ploidy)
            idx = cnts[s] > 0
            fresh = float(log_likelihood(dists[s][idx], harr[al], read_counts=cnts[s][idx]))
            if not close(float(v), fresh):
                n_bad += 1
                out["bad"].append({"where": "pedigree/swap-cache-entry", "sample": int(s), "alleles": al.tolist(), "cached": float(v), "fresh": fresh,
                                   "n_reads": n_reads, "pair": [int(pairs[0, 0]), int(pairs[0, 1])]})
        out["swap"].append({"n_reads": n_reads, "entries": len(cache) - 1, "incoherent": n_bad})
    pmcmc.log_likelihood_alleles_cached = orig_ped
    print(json.dumps(out))


if __name__ == "__main__":
    main()
