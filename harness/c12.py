"""C12 — haplotype encode/decode round trip; assemble output is valid call input.

Correspondence (record level): `LocusPrior.from_variant_record` (SNV discovery, first-appearance allele
numbering), `LocusPrior.encode_haplotypes` and `Locus.format_haplotypes` on generated multi-allelic
fixed-length haplotype records (read back through pysam from generated VCF text) against the Lean model
(`MCHap/Model/Loci.lean`: `fromRecord`, `encodeHaplotypes`, `formatHaplotypes`), plus hand-built loci for
`format_haplotypes` / `encode_haplotypes` outside the derived range (3-4 allele tuples, gaps, bad indices).
Pipeline: `mchap assemble` on synthetic data sets, its output fed to `mchap call` and `mchap call-exact`.
Implementation oracles: exact round trip, REF = allele 0, SNV columns = columns where a sequence differs
from REF, first-appearance numbering (independent Python), CHROM/POS/REF/ALT equality record by record,
complete GT unless NOA/AF0, recovered SNVPOS = polymorphic subset of assemble's SNVPOS.
"""
from __future__ import annotations

import os
import shutil
import tempfile

from . import common as C

PROP = "C12"
MODULE = "MCHap.Properties.C12"
THEOREMS = [
    "MCHap.C12.fromRecord_isSome_iff",
    "MCHap.C12.ref_is_allele_zero",
    "MCHap.C12.ref_encodes_to_zero",
    "MCHap.C12.alleles_nodup",
    "MCHap.C12.encode_valid",
    "MCHap.C12.format_encode",
    "MCHap.C12.snvColumns_spec",
    "MCHap.C12.snvless_record",
    "MCHap.C12.encode_format",
    "MCHap.C12.snv_positions_subset",
    "MCHap.C12.snv_positions_sublist",
]
RULE = ("record level: REF of length 1..40 over ACGT (sometimes N / lower case), 0..6 ALTs obtained by substituting 2..4 "
        "alleles at 0..5 chosen columns (duplicates of REF and of other ALTs allowed), <= 8% unequal-length ALTs; hand-built "
        "loci with 2..4-allele tuples, rows with gaps and (rarely) out-of-range indices. Pipeline: assemble output of a synthetic "
        "data set (SNV-less, multi-allelic, reference-absent loci, one sample without reads) fed to call / call-exact. "
        "Non-trivial: record with >= 2 ALTs, >= 2 SNV columns and a column with >= 3 alleles; pipeline record with >= 1 ALT. "
        "Distinct by canonical request line / (data set, program, record). WP3: records with 300 columns, >= 130 SNV columns and "
        ">= 130 ALTs, columns with 5 symbols, every record also through use_snvpos=True (SNVPOS superset / '.'); pipeline with two "
        "contigs, duplicated / overlapping targets, assemble --region, --report AFP, call / call-exact with --prior-frequencies AFP "
        "and --filter-input-haplotypes AFP<op><x> (ALT = the haplotypes passing the filter), single-sample read-less loci (NOA).")

ALPHA = "ACGT"


def tok_list(xs):
    xs = list(xs)
    return ",".join(str(x) for x in xs) if xs else "~"


def tok_rows(rows):
    rows = list(rows)
    return "|".join(tok_list(r) for r in rows) if rows else "!"


def py_first_appearance(chars):
    out = []
    for c in chars:
        if c not in out:
            out.append(c)
    return out


def py_derive(ref, alts):
    """independent statement of the property's encoding: SNV columns, alleles, rows"""
    seqs = [ref] + list(alts)
    cols = [j for j in range(len(ref)) if any(s[j] != ref[j] for s in alts)]
    alleles = [py_first_appearance([s[j] for s in seqs]) for j in cols]
    rows = [[al.index(s[j]) for j, al in zip(cols, alleles)] for s in seqs]
    return cols, alleles, rows


def gen_record(r, boundary, big=False):
    """(REF, ALTs, kind); `big`: 300 columns, >= 130 SNV columns and >= 130 ALTs (more haplotypes / columns than an int8 holds)"""
    n = r.choice([1, 2, 3, 5, 8, 12, 20, 40]) if not boundary else r.choice([1, 1, 2, 3])
    alpha = ALPHA if r.random() < 0.85 else r.choice(["ACGTN", "ACGTacgt"])
    if big:
        n = 300
    ref = "".join(r.choice(alpha) for _ in range(n))
    n_alts = r.choice([0, 1, 1, 2, 3, 4, 6]) if not boundary else r.choice([0, 0, 1, 2])
    n_cols = min(n, r.choice([0, 1, 2, 2, 3, 5]))
    if big:
        n_alts, n_cols = r.randint(130, 140), r.randint(130, 160)
    elif len(alpha) >= 5 and r.random() < 0.5:
        n_alts = r.choice([4, 6, 8])      # enough ALTs for a column to show 5 different symbols
    cols = sorted(r.sample(range(n), n_cols))
    options = {}
    for j in cols:
        k = r.choice([2, 2, 3, 4]) if len(alpha) < 5 else r.choice([2, 3, 4, 5, 5])
        others = [c for c in alpha if c != ref[j]]
        r.shuffle(others)
        options[j] = [ref[j]] + others[: k - 1]
    alts = []
    for _ in range(n_alts):
        mode = r.random()
        if mode < 0.1:
            alts.append(ref)                      # ALT identical to REF
        elif mode < 0.2 and alts:
            alts.append(r.choice(alts))           # duplicated ALT
        else:
            s = list(ref)
            for j in cols:
                if not big or r.random() < 0.3:
                    s[j] = r.choice(options[j])
            if len(alpha) >= 5 and cols:          # the first column cycles through all of its symbols (5 with ACGTN)
                s[cols[0]] = options[cols[0]][(len(alts) + 1) % len(options[cols[0]])]
            alts.append("".join(s))
    kind = "equal-length"
    if big:
        return ref, alts, "big"
    if alts and r.random() < 0.08:
        i = r.randrange(len(alts))
        alts[i] = alts[i] + r.choice(alpha) if r.random() < 0.5 or len(alts[i]) == 1 else alts[i][:-1]
        kind = "unequal-length"
    return ref, alts, kind


MCMC = ["--mcmc-steps", "120", "--mcmc-burn", "40"]
_OPS = {">=": lambda v, x: v >= x, ">": lambda v, x: v > x, "<": lambda v, x: v < x, "<=": lambda v, x: v <= x}


def info_floats(rec, key):
    """INFO field of a parsed record as a list of floats (None for '.'), or None when the field is absent / '.'"""
    v = rec["INFO"].get(key)
    if v is None or v is True or v == ".":
        return None
    return [None if x == "." else float(x) for x in v.split(",")]


def expected_alts(arec, flt):
    """ALT alleles of an assemble record that pass `--filter-input-haplotypes AFP<op><x>` (REF is never removed); None when
    the documented behaviour is not determined (no AFP values)."""
    if flt is None:
        return list(arec["ALT"])
    op, x = flt
    afp = info_floats(arec, "AFP")
    if afp is None:
        return list(arec["ALT"])          # nothing to filter on: apply_allele_filter keeps every allele
    if len(afp) != 1 + len(arec["ALT"]) or any(v is None for v in afp):
        return None
    return [alt for alt, v in zip(arec["ALT"], afp[1:]) if _OPS[op](v, float(x))]


def snvpos_of(rec):
    v = rec["INFO"].get("SNVPOS", ".")
    return [] if v in (".", True) else [int(x) for x in v.split(",")]


def check_called(chk, prog, tag, arecs, out2, code, err, key0, flt, reqs=None, expect=None):
    """records of call / call-exact (`out2`) against the assemble records they were computed from"""
    from . import synth as S

    sig = f"C12/pipeline/{prog}"
    if code != 0:
        chk.violation(f"mchap {prog} aborted on assemble output", {**key0, "program": prog, "options": tag, "error": err[:600],
                                                                   "assemble": [x["line"][:300] for x in arecs[:8]]},
                      f"{sig}-abort")
        return
    _, crecs = S.parse_vcf_text(out2)
    if len(crecs) != len(arecs):
        chk.violation(f"mchap {prog} emitted {len(crecs)} records for {len(arecs)} assemble records",
                      {**key0, "program": prog, "options": tag, "assemble": [(x["CHROM"], x["POS"], x["FILTER"]) for x in arecs],
                       "out": [(x["CHROM"], x["POS"], x["FILTER"]) for x in crecs]}, f"{sig}-record-count")
        return
    for a, c in zip(arecs, crecs):
        key = {**key0, "program": prog, "options": tag, "CHROM": a["CHROM"], "POS": a["POS"], "ID": a["ID"]}
        chk.case({"seed": C.seed(), **key, "REF": a["REF"], "ALT": a["ALT"]}, len(a["ALT"]) >= 1)
        want_alt = expected_alts(a, flt)
        if flt is not None and want_alt is not None and len(want_alt) < len(a["ALT"]):
            chk.count(f"{prog}:record-with-filtered-ALT")
        same = all(a[k] == c[k] for k in ("CHROM", "POS", "REF")) and (want_alt is None or c["ALT"] == want_alt)
        if not same:
            chk.violation(f"{prog} changed CHROM/POS/REF/ALT of an assemble record" +
                          (" (ALT is not the list of input haplotypes passing the filter)" if flt else ""),
                          {**key, "assemble": [a["REF"], a["ALT"], a["INFO"].get("AFP")], "expected_ALT": want_alt,
                           "out": [c["CHROM"], c["POS"], c["REF"], c["ALT"]]}, f"{sig}-columns")
        filt = set(c["FILTER"].split(";"))
        invalid = bool(filt & {"NOA", "AF0"})
        for f_ in ("NOA", "AF0"):
            if f_ in filt:
                chk.count(f"{prog}:{f_}")
        if invalid:
            chk.count(f"{prog}:NOA/AF0")
        for name, smp in zip(c["sample_names"], c["samples"]):
            gt = smp.get("GT", "")
            alleles = gt.replace("|", "/").split("/")
            if "." in alleles and not invalid:
                chk.violation(f"{prog} emitted an incomplete genotype without NOA/AF0",
                              {**key, "sample": name, "GT": gt, "FILTER": c["FILTER"], "assemble_line": a["line"][:400]},
                              f"{sig}-incomplete-gt")
            for x in alleles:
                if x != "." and not (x.isdigit() and int(x) <= len(c["ALT"])):
                    chk.violation(f"{prog} emitted an allele number outside REF/ALT", {**key, "sample": name, "GT": gt},
                                  f"{sig}-allele-range")
        # recovered SNV positions = polymorphic subset of assemble's SNVPOS
        sa, sc = snvpos_of(a), snvpos_of(c)
        poly = [j + 1 for j in range(len(c["REF"])) if any(len(s_) == len(c["REF"]) and s_[j] != c["REF"][j] for s_ in c["ALT"])]
        if sc != poly or not set(sc) <= set(sa):
            chk.violation(f"{prog}: recovered SNV positions are not the polymorphic subset of assemble's SNVPOS",
                          {**key, "assemble_SNVPOS": sa, "out_SNVPOS": sc, "polymorphic": poly},
                          f"{sig}-snvpos")
        if reqs is not None and flt is None:
            reqs.append(f"loci.derive {a['REF']} {tok_list(a['ALT'])}")
            expect.append((key, sc, a))


def pipeline_dataset(chk, r, S, work, d, reqs, expect):
    """one synthetic data set: assemble (BED targets: two contigs, duplicated / overlapping windows; one --region run),
    its output through call and call-exact (plain, --prior-frequencies AFP, --filter-input-haplotypes AFP<op><x>)"""
    dsdir = os.path.join(work, f"ds{d}")
    hard = d % 2 == 1     # shallow data + a strict reporting threshold: REFMASKED / ALT-less / NOA records
    lonely = d % 4 == 1   # a single sample: its read-less locus ("nodepth") cannot reach threshold 1.0 -> NOA record
    ds = S.make_dataset(r, dsdir, n_samples=1 if lonely else 3, n_loci=r.choice([4, 5]),
                        ploidies=r.choice([(2, 4), (2,), (4, 2, 2)]), max_snvs=4, features={"nodepth"},
                        depth=(1, 3) if hard else (4, 14), n_contigs=r.choice([1, 2]), contig_len=r.choice([600, 400]),
                        iupac=(0.08 if d % 3 == 0 else 0.0),     # a reference with IUPAC ambiguity codes between the SNVs
                        flank_snvs=True)                           # SNV records on the bases next to every target
    chk.count(f"pipeline:reference-with-ambiguity-codes={d % 3 == 0}")
    chk.count(f"pipeline:contigs={len(ds.contigs)}")
    extra = ["--haplotype-posterior-threshold", "1.0" if lonely else r.choice(["1.0", "1.0", "0.95"])] if hard else []
    key0 = {"dataset": d}
    # ---- targets: the data set's windows plus (every other data set) a duplicated and an overlapping window
    targets = [(l.contig, l.start, l.stop, l.name) for l in ds.loci]
    if d % 2 == 0:
        l = r.choice(ds.loci)
        targets.append((l.contig, l.start, l.stop, l.name + "dup"))
        l2 = r.choice(ds.loci)
        s2 = l2.start + r.randint(1, max(1, (l2.stop - l2.start) // 2))
        e2 = min(len(ds.contigs[l2.contig]), l2.stop + r.randint(0, 8))
        targets.append((l2.contig, s2, e2, l2.name + "ovl"))
        order = {c: i for i, c in enumerate(ds.contigs)}
        targets.sort(key=lambda t: (order[t[0]], t[1]))
        chk.count("pipeline:targets=duplicated+overlapping")
    else:
        chk.count("pipeline:targets=plain")
    bed = S.write_text(os.path.join(dsdir, "targets2.bed"), "".join(f"{c}\t{s_}\t{e}\t{n}\n" for c, s_, e, n in targets))
    argv = ds.assemble_argv(*MCMC, *extra, "--report", "AFP")
    argv[argv.index("--targets") + 1] = bed
    out, code, err = S.run_program(argv)
    chk.count("pipeline:assemble-runs")
    if code != 0:
        chk.violation("mchap assemble aborted on a synthetic data set", {**key0, "error": err[:500]},
                      "C12/pipeline/assemble-abort")
        return
    _, arecs = S.parse_vcf_text(out)
    agz = S.bgzip_tabix_vcf(S.write_text(os.path.join(dsdir, "assemble.vcf"), out))
    got = [(a["CHROM"], a["POS"], a["ID"], a["REF"]) for a in arecs]
    refseq = {c_: (ds.fasta_contigs.get(c_) or ds.contigs[c_]).upper() for c_ in ds.contigs}     # the reference as written to the FASTA
    want = [(c, s_ + 1, n, refseq[c][s_:e]) for c, s_, e, n in targets]
    if got != want:
        chk.violation("assemble did not print one record per target with POS = start + 1 and REF = the reference sequence of the window",
                      {**key0, "got": got, "expected": want}, "C12/pipeline/assemble-records")
        return
    # SNVPOS of every record = the positions of the --variants records that lie inside the target window (1-based offsets): a
    # record on the base before or after the window is not part of the locus
    snv_recs = [(x.split("\t")[0], int(x.split("\t")[1]) - 1, x.split("\t")[4]) for x in open(ds.snv_vcf[:-3]).read().split("\n")
                if x and not x.startswith("#")]
    for a, (c, s_, e, n) in zip(arecs, targets):
        want_pos = sorted({p_ - s_ + 1 for c_, p_, alt_ in snv_recs if c_ == c and s_ <= p_ < e and alt_ != "."})
        v_ = a["INFO"].get("SNVPOS", ".")
        got_pos = [] if v_ in (".", None) else [int(x) for x in (v_ if isinstance(v_, (list, tuple)) else str(v_).split(","))]
        chk.count("assemble:SNVPOS-compared-with-the-variants-file")
        if any(c_ == c and p_ in (s_ - 1, e) for c_, p_, _ in snv_recs):
            chk.count("assemble:target-with-a-variant-record-on-an-adjacent-base")
        if got_pos != want_pos:
            chk.violation("assemble: SNVPOS is not the set of --variants records inside the target window",
                          {**key0, "target": [c, s_, e, n], "SNVPOS": got_pos, "expected": want_pos}, "C12/pipeline/assemble-snvpos")
    for a in arecs:
        chk.count("assemble:records")
        if not a["ALT"]:
            chk.count("assemble:no-ALT")
        if a["INFO"].get("REFMASKED") is True:
            chk.count("assemble:REFMASKED")
        if a["INFO"].get("SNVPOS", ".") == ".":
            chk.count("assemble:SNV-less")
        if "NOA" in a["FILTER"]:
            chk.count("assemble:NOA")
    runs = [("call", None, None), ("call-exact", None, None)]
    flt = (r.choice([">=", ">=", ">", "<", "<="]), r.choice(["0.0505", "0.1005", "0.2505", "0.5005", "0.9005"]))
    mode = ["prior", "prior+filter", "filter", "prior+filter"][d % 4]
    runs.append((r.choice(["call", "call-exact", "call-exact"]), mode, flt if "filter" in mode else None))
    for prog, mode, f_ in runs:
        opts = []
        if mode and "prior" in mode:
            opts += ["--prior-frequencies", "AFP"]
        if f_:
            opts += ["--filter-input-haplotypes", f"AFP{f_[0]}{f_[1]}"]
        out2, code, err = S.run_program(ds.call_argv(prog, agz, *(MCMC if prog == "call" else []), *opts))
        chk.count(f"pipeline:{prog}-runs")
        chk.count(f"pipeline:options={mode or 'plain'}" + (f"({f_[0]})" if f_ else ""))
        check_called(chk, prog, " ".join(opts), arecs, out2, code, err, key0, f_, reqs if prog == "call" else None, expect)
    # ---- several cores (a number that does not divide the record count where possible): still one output record per input record
    n_cores = next((k for k in (3, 2, 4, 5) if len(arecs) % k), 3)
    outc, code, err = S.run_program(ds.call_argv("call-exact", agz, "--cores", str(n_cores)))
    chk.count("pipeline:call-exact-cores-runs")
    chk.case({**key0, "what": "cores", "cores": n_cores, "records": len(arecs)}, len(arecs) % n_cores != 0)
    if code != 0:
        chk.violation("call-exact --cores aborts on records the single-core run handles", {**key0, "cores": n_cores, "error": err[:400]},
                      "C12/pipeline/cores-abort")
    else:
        _, crecs = S.parse_vcf_text(outc)
        got_ids = sorted((x["CHROM"], x["POS"], x["ID"], x["REF"], ",".join(x["ALT"] or [])) for x in crecs)
        want_ids = sorted((x["CHROM"], x["POS"], x["ID"], x["REF"], ",".join(x["ALT"] or [])) for x in arecs)
        if got_ids != want_ids:
            chk.violation("call-exact --cores: the output does not hold exactly one record per input record (CHROM, POS, ID, REF, ALT unchanged)",
                          {**key0, "cores": n_cores, "missing": [list(x[:3]) for x in want_ids if x not in got_ids][:6],
                           "unexpected": [list(x[:3]) for x in got_ids if x not in want_ids][:6]}, "C12/pipeline/cores-records")
    # ---- the same data through `assemble --region` (one window), then call-exact
    c, s_, e, n = r.choice(targets)
    argv = ds.assemble_argv(*MCMC, *extra, "--report", "AFP")
    i = argv.index("--targets")
    del argv[i:i + 2]
    with_id = r.random() < 0.5
    argv += ["--region", f"{c}:{s_}-{e}"] + (["--region-id", "REGION1"] if with_id else [])
    out, code, err = S.run_program(argv)
    chk.count("pipeline:assemble-region-runs" + ("(--region-id)" if with_id else ""))
    if code != 0:
        chk.violation("mchap assemble --region aborted on a synthetic data set", {**key0, "region": [c, s_, e], "error": err[:500]},
                      "C12/pipeline/assemble-region-abort")
        return
    _, rrecs = S.parse_vcf_text(out)
    # "contig:start-stop" is read as 0-based half-open by the code; 1-based inclusive would be a legitimate convention too
    ok = len(rrecs) == 1 and rrecs[0]["CHROM"] == c and \
        rrecs[0]["REF"] == refseq[c][rrecs[0]["POS"] - 1:rrecs[0]["POS"] - 1 + len(rrecs[0]["REF"])] and \
        (rrecs[0]["POS"] - 1, len(rrecs[0]["REF"])) in ((s_, e - s_), (s_ - 1, e - s_ + 1))
    if not ok:
        chk.violation("assemble --region did not print exactly one record covering the region whose REF is the reference sequence at its POS",
                      {**key0, "region": [c, s_, e], "records": [(x["CHROM"], x["POS"], x["REF"]) for x in rrecs]},
                      "C12/pipeline/assemble-region-record")
        return
    rgz = S.bgzip_tabix_vcf(S.write_text(os.path.join(dsdir, "region.vcf"), out))
    out2, code, err = S.run_program(ds.call_argv("call-exact", rgz))
    chk.count("pipeline:call-exact-runs")
    check_called(chk, "call-exact", "(assemble --region output)", rrecs, out2, code, err, {**key0, "region": [c, s_, e]}, None)
    shutil.rmtree(dsdir, ignore_errors=True)


def run(tier, replay=None):
    import numpy as np
    import pysam
    from mchap.io.loci import Locus, LocusPrior, SNP
    from . import synth as S

    chk = C.Check(PROP, tier, MODULE, THEOREMS, RULE, exe="driver_loci", assumptions=[
        "sequences are over characters other than '{' and '}' (str.format template) and positions are >= the locus start",
        "pysam / htslib decoding of the VCF text into REF / ALT strings is runtime (the model starts from the strings pysam returns)",
        "pipeline part (assemble -> call / call-exact) is checked on generated data sets, not proved: the programs' sampling is outside the model",
    ])
    chk.prove()
    drv = C.Driver("driver_loci")
    r = C.rng(PROP)
    n_rec = {"warm": 6, "quick": 300, "thorough": 3000}[tier]
    n_hand = {"warm": 4, "quick": 150, "thorough": 1500}[tier]
    n_ds = {"warm": 1, "quick": 4, "thorough": 16}[tier]
    work = tempfile.mkdtemp(prefix="verif-c12-")
    try:
        # ------------------------------------------------------------------ record level
        gen = [gen_record(r, r.random() < 0.12) for _ in range(n_rec)]
        gen += [gen_record(r, False, big=True) for _ in range({"warm": 1, "quick": 3, "thorough": 12}[tier])]
        # INFO/SNVPOS as assemble would print it: a superset of the polymorphic columns ('.' when empty)
        snvpos = []
        for ref, alts, kind in gen:
            poly = [j for j in range(len(ref)) if any(len(s_) == len(ref) and s_[j] != ref[j] for s_ in alts)]
            extra = r.sample(range(len(ref)), min(len(ref), r.choice([0, 0, 1, 2, 5])))
            snvpos.append(sorted(set(poly) | set(extra)) if kind != "unequal-length" else [])
        total = sum(len(g[0]) + 10 for g in gen) + 100
        lines = ["##fileformat=VCFv4.3", f"##contig=<ID=chr1,length={total}>",
                 '##INFO=<ID=SNVPOS,Number=.,Type=Integer,Description="Relative (1-based) positions of SNVs within haplotypes">',
                 "#CHROM\tPOS\tID\tREF\tALT\tQUAL\tFILTER\tINFO"]
        pos = 5
        for (ref, alts, _), sp in zip(gen, snvpos):
            info = "SNVPOS=" + (",".join(str(j + 1) for j in sp) if sp else ".")
            lines.append(f"chr1\t{pos}\t.\t{ref}\t{','.join(alts) if alts else '.'}\t.\tPASS\t{info}")
            pos += len(ref) + 10
        gz = S.bgzip_tabix_vcf(S.write_text(os.path.join(work, "records.vcf"), "\n".join(lines) + "\n"))
        records = []
        reqs2, impl2, meta2 = [], [], []
        with pysam.VariantFile(gz) as f:
            for rec in f.fetch():
                records.append(rec)
            if len(records) != len(gen):
                raise C.Infra(f"pysam returned {len(records)} records for {len(gen)} written")
            reqs, impl = [], []
            for rec, (_, _, kind), sp in zip(records, gen, snvpos):
                ref = rec.ref
                alts = list(rec.alts) if rec.alts else []
                reqs.append(f"loci.derive {ref} {tok_list(alts)}")
                try:
                    lp = LocusPrior.from_variant_record(rec)
                    offs = [p - rec.start for p in lp.positions]
                    enc = lp.encode_haplotypes()
                    if enc.shape != (1 + len(alts), len(offs)):
                        chk.disagreement("encode_haplotypes shape", {"ref": ref, "alts": alts, "shape": list(enc.shape)})
                    rows = [[int(x) for x in row] for row in enc]
                    try:
                        fmt = [str(s) for s in lp.format_haplotypes(enc)]
                    except IndexError:
                        fmt = "err:index"
                    impl.append({"offs": offs, "alleles": ["".join(a) for a in lp.alleles], "rows": rows, "fmt": fmt,
                                 "start": rec.start, "stop": rec.stop, "seq": lp.sequence, "alts": list(lp.alts)})
                except AssertionError:
                    impl.append("err:assertion")
                # ---- the same record with the SNV columns taken from INFO/SNVPOS (what assemble printed)
                if kind == "unequal-length":
                    continue
                case = {"ref": ref[:400], "alts": [x[:400] for x in alts[:8]], "n_alts": len(alts), "SNVPOS": [j + 1 for j in sp]}
                chk.count("snvpos:records")
                chk.count("snvpos:empty('.')" if not sp else ("snvpos:with-monomorphic-column" if len(sp) > len(
                    [j for j in sp if any(x[j] != ref[j] for x in alts)]) else "snvpos:all-polymorphic"))
                try:
                    lp2 = LocusPrior.from_variant_record(rec, use_snvpos=True)
                    offs2 = [int(p - rec.start) for p in lp2.positions]
                    als2 = ["".join(a) for a in lp2.alleles]
                    enc2 = lp2.encode_haplotypes()
                    rows2 = [[int(x) for x in row] for row in enc2]
                    fmt2 = [str(x) for x in lp2.format_haplotypes(enc2)]
                except Exception as e:  # noqa: BLE001
                    chk.violation("from_variant_record(use_snvpos=True) / encode / format raised on a consistent record",
                                  {**case, "error": f"{type(e).__name__}: {e}"[:300]}, "C12/from_variant_record/snvpos-exception")
                    continue
                seqs = [ref] + alts
                want_als = ["".join(py_first_appearance([x[j] for x in seqs])) for j in sp]
                want_rows = [[al.index(x[j]) for j, al in zip(sp, want_als)] for x in seqs]
                if offs2 != list(sp):
                    chk.violation("use_snvpos: SNV columns are not the SNVPOS of the record", {**case, "got": offs2},
                                  "C12/from_variant_record/snvpos-columns")
                elif als2 != want_als:
                    chk.violation("use_snvpos: SNV alleles are not REF first then ALT bases by first appearance",
                                  {**case, "got": als2[:20], "expected": want_als[:20]}, "C12/from_variant_record/snvpos-first-appearance")
                elif rows2 != want_rows or enc2.shape != (len(seqs), len(sp)):
                    chk.violation("use_snvpos: encoded alleles are not the first-appearance indices",
                                  {**case, "shape": list(enc2.shape)}, "C12/encode_haplotypes/snvpos-indices")
                if fmt2 != seqs:
                    chk.violation("use_snvpos: format_haplotypes(encode_haplotypes()) does not reproduce REF/ALT",
                                  {**case, "got": [x[:400] for x in fmt2[:8]]}, "C12/roundtrip/format-encode-snvpos")
                if [o for o, al in zip(offs2, als2) if len(al) > 1] != (impl[-1]["offs"] if isinstance(impl[-1], dict) else None):
                    chk.violation("SNV positions recovered from the sequences are not the polymorphic subset of SNVPOS",
                                  {**case, "from_sequences": impl[-1]["offs"] if isinstance(impl[-1], dict) else impl[-1],
                                   "polymorphic_of_SNVPOS": [o for o, al in zip(offs2, als2) if len(al) > 1]},
                                  "C12/from_variant_record/snvpos-polymorphic-subset")
                reqs2.append(f"loci.encode {tok_list(offs2)} {tok_list(als2)} {tok_list(seqs)}")
                impl2.append(tok_rows(rows2))
                meta2.append(case)
                reqs2.append(f"loci.format {ref} {tok_list(offs2)} {tok_list(als2)} - {tok_rows(rows2)}")
                impl2.append(tok_list(fmt2))
                meta2.append(case)
        for req, a, im, case in zip(reqs2, drv.ask(reqs2), impl2, meta2):
            chk.case(req, len(case["SNVPOS"]) >= 2 and case["n_alts"] >= 2)
            if a != im:
                chk.disagreement("use_snvpos: encode_haplotypes / format_haplotypes != model on the SNVPOS columns",
                                 {**case, "request": req[:300], "impl": im[:300], "model": a[:300]})
        ans = drv.ask(reqs)
        for req, a, im, rec, (_, _, kind) in zip(reqs, ans, impl, records, gen):
            ref = rec.ref
            alts = list(rec.alts) if rec.alts else []
            chk.count(f"record:{kind}")
            chk.count(f"record:n_alts={min(len(alts), 4)}{'+' if len(alts) >= 4 else ''}")
            case = {"ref": ref, "alts": alts} if len(ref) <= 60 else {"ref": ref, "alts": alts[:6], "n_alts": len(alts)}
            if im == "err:assertion" or a == "err:assertion":
                chk.case(req, False)
                chk.count("record:assertion-error")
                if im != a:
                    chk.disagreement("from_variant_record length assertion", {**case, "impl": im, "model": a})
                if all(len(x) == len(ref) for x in alts):
                    chk.violation("from_variant_record rejects a fixed-length haplotype record", {**case, "impl": im},
                                  "C12/from_variant_record/rejects-valid")
                continue
            m_offs, m_als, m_rows, m_fmt = a.split(" ")
            i_str = (tok_list(im["offs"]), tok_list(im["alleles"]), tok_rows(im["rows"]),
                     im["fmt"] if isinstance(im["fmt"], str) else tok_list(im["fmt"]))
            n_snv = len(im["offs"])
            chk.count(f"record:n_snv={min(n_snv, 4)}{'+' if n_snv >= 4 else ''}")
            if not alts:
                chk.count("record:no-ALT")
            elif n_snv == 0:
                chk.count("record:SNV-less")
            nontriv = len(alts) >= 2 and n_snv >= 2 and any(len(x) >= 3 for x in im["alleles"])
            chk.case(req, nontriv, sample={"request": req[:200], "impl": " ".join(i_str)[:300], "model": a[:300]})
            if i_str != (m_offs, m_als, m_rows, m_fmt):
                chk.disagreement("from_variant_record / encode_haplotypes / format_haplotypes != model",
                                 {**case, "impl": list(i_str), "model": a})
            # ---- oracles on the implementation
            cols, alleles, rows = py_derive(ref, alts)
            if kind == "big":
                chk.count(f"record:big(n_snv>={10 * (n_snv // 10)},n_alts>={10 * (len(alts) // 10)})")
            if any(len(x) >= 5 for x in im["alleles"]):
                chk.count("record:column-with->=5-symbols")
            if im["fmt"] != [ref] + alts:
                chk.violation("format_haplotypes(encode_haplotypes()) does not reproduce REF/ALT", {**case, "got": im["fmt"]},
                              "C12/roundtrip/format-encode")
            if im["offs"] != cols:
                chk.violation("recovered SNV positions are not the columns where a sequence differs from REF",
                              {**case, "got": im["offs"], "expected": cols}, "C12/from_variant_record/snv-columns")
            if im["alleles"] != ["".join(x) for x in alleles]:
                chk.violation("SNV alleles are not REF first then ALT bases by first appearance",
                              {**case, "got": im["alleles"], "expected": ["".join(x) for x in alleles]},
                              "C12/from_variant_record/first-appearance")
            if im["rows"] != rows:
                chk.violation("encoded alleles are not the first-appearance indices", {**case, "got": im["rows"], "expected": rows},
                              "C12/encode_haplotypes/indices")
            if im["rows"] and any(x != 0 for x in im["rows"][0]):
                chk.violation("REF does not encode to allele 0 everywhere", {**case, "got": im["rows"][0]}, "C12/encode_haplotypes/ref-zero")
            if (im["seq"], im["alts"], im["stop"] - im["start"]) != (ref, alts, len(ref)):
                chk.violation("LocusPrior sequence / alts differ from the record", {**case, "got": [im["seq"], im["alts"]]},
                              "C12/from_variant_record/sequences")

        # ------------------------------------------------------------------ hand-built loci (format / encode)
        reqs, impl, meta = [], [], []
        for _ in range(n_hand):
            n = r.choice([1, 2, 4, 8, 16])
            seq = "".join(r.choice(ALPHA) for _ in range(n))
            n_var = min(n, r.choice([0, 1, 2, 3, 4]))
            offs = sorted(r.sample(range(n), n_var))
            start = r.choice([0, 7, 1000])
            alleles = []
            for j in offs:
                k = r.choice([1, 2, 3, 4])
                others = [c for c in ALPHA if c != seq[j]]
                r.shuffle(others)
                alleles.append(seq[j] + "".join(others[: k - 1]))
            bad = r.random() < 0.1
            rows = []
            for _row in range(r.choice([1, 1, 2, 3, 5])):   # assemble never formats zero rows (numpy cannot reshape them)
                row = []
                for al in alleles:
                    x = r.randrange(len(al))
                    u = r.random()
                    if u < 0.1:
                        x = -1 if u < 0.07 else -2
                    elif bad and u < 0.3:
                        x = len(al) + r.choice([0, 1])
                    row.append(x)
                if bad and row and r.random() < 0.3:
                    row = row[:-1] if r.random() < 0.5 else row + [0]
                rows.append(row)
            ragged = len({len(x) for x in rows}) > 1
            if ragged:     # numpy cannot hold ragged rows: keep every row at the length of the first
                rows = [x for x in rows if len(x) == len(rows[0])]
            gap = r.choice("-N.")
            variants = tuple(SNP("chr1", start + j, start + j + 1, ".", alleles=tuple(al)) for j, al in zip(offs, alleles))
            locus = Locus(contig="chr1", start=start, stop=start + n, name="x", sequence=seq, variants=variants)
            arr = np.array(rows, dtype=np.int8).reshape(len(rows), len(rows[0]) if rows else len(offs))
            try:
                out = tok_list(str(s) for s in locus.format_haplotypes(arr, gap=gap))
            except IndexError:
                out = "err:index"
            reqs.append(f"loci.format {seq} {tok_list(offs)} {tok_list(alleles)} {gap} {tok_rows(rows)}")
            impl.append(out)
            meta.append(("format", seq, offs, alleles, rows, gap))
            # encode with a locus of its own: sequences containing characters outside the allele tuples
            seqs = []
            for _s in range(r.choice([1, 2, 4])):
                s = list(seq)
                for j, al in zip(offs, alleles):
                    s[j] = r.choice(al) if r.random() < 0.85 else r.choice(ALPHA)
                seqs.append("".join(s))
            lp = LocusPrior(contig="chr1", start=start, stop=start + n, name="x", sequence=seqs[0], variants=variants,
                            alts=tuple(seqs[1:]), frequencies=np.ones(len(seqs)) / len(seqs))
            enc = lp.encode_haplotypes()
            reqs.append(f"loci.encode {tok_list(offs)} {tok_list(alleles)} {tok_list(seqs)}")
            impl.append(tok_rows([[int(x) for x in row] for row in enc]))
            meta.append(("encode", seq, offs, alleles, seqs, None))
        ans = drv.ask(reqs)
        for req, a, im, m in zip(reqs, ans, impl, meta):
            kind, seq, offs, alleles, rows, gap = m
            chk.count(f"hand:{kind}")
            if im == "err:index":
                chk.count("hand:index-error")
            nontriv = len(offs) >= 2 and any(len(x) >= 3 for x in alleles) and len(rows) >= 2
            chk.case(req, nontriv)
            if a != im:
                chk.disagreement(f"Locus.{kind} on a hand-built locus != model", {"request": req, "impl": im, "model": a})
            if kind == "format" and im != "err:index" and rows:
                # oracle: re-encoding with the same locus returns the valid rows (the other direction)
                ok_rows = all(0 <= x < len(al) for row in rows for x, al in zip(row, alleles)) and all(len(row) == len(offs) for row in rows)
                if ok_rows and all(len(set(al)) == len(al) for al in alleles):
                    strings = im.split(",")
                    back = [[al.find(s[j]) if j < len(s) else -9 for j, al in zip(offs, alleles)] for s in strings]
                    if back != rows:
                        chk.violation("encoding the formatted haplotypes with the same locus does not return the allele indices",
                                      {"request": req, "formatted": strings, "back": back}, "C12/roundtrip/encode-format")

        # ------------------------------------------------------------------ pipeline: assemble -> call, call-exact
        reqs, expect = [], []
        for d in range(n_ds):
            pipeline_dataset(chk, r, S, work, d, reqs, expect)
        ans = drv.ask(reqs)
        for req, a, (key, sc, arec) in zip(reqs, ans, expect):
            m_offs = a.split(" ")[0]
            m = [] if m_offs == "~" else [int(x) + 1 for x in m_offs.split(",")]
            m_fmt = a.split(" ")[-1]
            if m != sc:
                chk.disagreement("SNVPOS printed by call != model snvColumns of the record", {**key, "impl": sc, "model": m})
            if m_fmt != tok_list([arec["REF"]] + arec["ALT"]):
                chk.disagreement("model round trip on an assemble record", {**key, "model": a[:300]})
    finally:
        shutil.rmtree(work, ignore_errors=True)
    return chk.finish()
