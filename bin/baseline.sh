#!/bin/sh
# Runs the repository's pinned suite (guard off) and compares against /root/.vp/BASELINE.json stable_pass.
# usage: bin/baseline.sh [repo-dir]   (default /repo); exit 0 iff every stable_pass test passed
REPO=${1:-/repo}
OUT=$(mktemp -d /var/tmp/baseline.XXXXXX)
cd "$REPO" || exit 2
env -u MCHAP_VERIF -u NUMBA_CACHE_DIR /venv/bin/python -m pytest -q -p no:cacheprovider --timeout=900 \
   --continue-on-collection-errors -n 12 --junitxml="$OUT/junit.xml" > "$OUT/log" 2>&1
tail -3 "$OUT/log"
/venv/bin/python - "$OUT/junit.xml" <<'PY'
import json, sys, xml.etree.ElementTree as ET
base = json.load(open('/root/.vp/BASELINE.json'))
want = set(base['stable_pass'])
got = set()
for tc in ET.parse(sys.argv[1]).getroot().iter('testcase'):
    bad = any(c.tag in ('failure', 'error', 'skipped') for c in tc)
    if not bad:
        got.add(f"{tc.get('classname')}::{tc.get('name')}")
missing = sorted(want - got)
print(f"stable_pass={len(want)} passed_now={len(got & want)} missing={len(missing)}")
for m in missing[:20]:
    print("  MISSING", m)
sys.exit(1 if missing else 0)
PY
rc=$?
rm -rf "$OUT"
exit $rc
