#!/usr/bin/env python3
"""Mutation campaign: small syntactic changes in the functions the properties are anchored in, each run against the
property's quick check on a scratch copy of the repository (never in /repo).

usage: bin/mutation_campaign.py list  [Cxx ...]          # print the mutants (id, file, line, change)
       bin/mutation_campaign.py run OUT.tsv LANES [Cxx ...] [--max N] [--seed S]

Operators (one change per mutant, chosen inside the anchored functions only):
  cmp     <  <->  <=,  >  <->  >=,  ==  <->  !=
  arith   +  <->  -,   *  <->  /
  const   an integer literal 0 / 1 / 2 / -1  ->  +1
  bool    and <-> or
  kwdrop  a keyword argument of a call is dropped (the callee's default applies), when the call has >= 3 keywords
  idx     x[i, 0] <-> x[i, 1] in a subscript with a literal 0 / 1 last index

A mutant that the check does not catch is only interesting if the pinned test suite does not catch it either and it is not
equivalent; those are looked at by hand (see DESIGN section 7).  Output: one line per mutant with the check's exit code.
"""
from __future__ import annotations

import ast
import json
import os
import random
import shutil
import subprocess
import sys
import tempfile
import threading
import time

VERIF = os.path.dirname(os.path.dirname(os.path.abspath(__file__)))
REPO = os.environ.get("MCHAP_REPO", "/repo")


def anchors():
    if os.environ.get("MUT_TARGETS"):            # {"Cxx": {"mchap/...py": ["function", ...]}}: other functions than the anchored ones
        return {p: {f: set(n) for f, n in d.items()} for p, d in json.load(open(os.environ["MUT_TARGETS"])).items()}
    out = {}
    for line in open(os.path.join(VERIF, "properties.jsonl")):
        d = json.loads(line)
        fns = {}
        for m in d["anchors"]["mechanism"]:
            for part in m["where"].replace(" vs ", ",").replace(";", ",").split(","):
                part = part.strip()
                if ":" not in part:
                    continue
                f, names = part.split(":", 1)
                f = f.strip()
                if not f.endswith(".py"):
                    continue
                for n in names.replace(" and ", ",").replace("/", ",").split(","):
                    n = n.strip().split("(")[0].split(".")[-1].strip()
                    if n and n.replace("_", "").isalnum():
                        fns.setdefault(f, set()).add(n)
        out[d["id"]] = fns
    return out


CMP = {ast.Lt: "<=", ast.LtE: "<", ast.Gt: ">=", ast.GtE: ">", ast.Eq: "!=", ast.NotEq: "=="}
CMP_SRC = {ast.Lt: "<", ast.LtE: "<=", ast.Gt: ">", ast.GtE: ">=", ast.Eq: "==", ast.NotEq: "!="}
ARI = {ast.Add: ("+", "-"), ast.Sub: ("-", "+"), ast.Mult: ("*", "/"), ast.Div: ("/", "*")}


def find_between(src_lines, a, b, tok):
    """position of operator token `tok` between the end of node a and the start of node b (same line only)"""
    if a.end_lineno != b.lineno:
        return None
    line = src_lines[a.end_lineno - 1]
    seg = line[a.end_col_offset:b.col_offset]
    if seg.strip() != tok:
        return None
    i = a.end_col_offset + seg.index(tok)
    return a.end_lineno, i, i + len(tok)


def mutants_of(path, rel, names):
    src = open(path).read()
    lines = src.split("\n")
    tree = ast.parse(src)
    out = []
    for fn in ast.walk(tree):
        if not isinstance(fn, (ast.FunctionDef,)) or fn.name not in names:
            continue
        doc = ast.get_docstring(fn, clean=False)
        body_nodes = fn.body[1:] if doc is not None else fn.body
        for top in body_nodes:
            for n in ast.walk(top):
                if isinstance(n, ast.Compare) and len(n.ops) == 1 and type(n.ops[0]) in CMP:
                    p = find_between(lines, n.left, n.comparators[0], CMP_SRC[type(n.ops[0])])
                    if p:
                        out.append((rel, fn.name, "cmp", p, CMP[type(n.ops[0])]))
                elif isinstance(n, ast.BinOp) and type(n.op) in ARI:
                    p = find_between(lines, n.left, n.right, ARI[type(n.op)][0])
                    if p:
                        out.append((rel, fn.name, "arith", p, ARI[type(n.op)][1]))
                elif isinstance(n, ast.BoolOp) and len(n.values) == 2:
                    tok = "and" if isinstance(n.op, ast.And) else "or"
                    p = find_between(lines, n.values[0], n.values[1], tok)
                    if p:
                        out.append((rel, fn.name, "bool", p, "or" if tok == "and" else "and"))
                elif isinstance(n, ast.Constant) and isinstance(n.value, int) and not isinstance(n.value, bool) \
                        and n.value in (0, 1, 2) and n.lineno == n.end_lineno:
                    out.append((rel, fn.name, "const", (n.lineno, n.col_offset, n.end_col_offset), str(n.value + 1)))
                elif isinstance(n, ast.Call) and len(n.keywords) >= 3:
                    for kw in n.keywords:
                        if kw.arg and kw.value.lineno == kw.value.end_lineno:
                            ln = lines[kw.value.lineno - 1]
                            if ln.strip() == f"{kw.arg}={ast.get_source_segment(src, kw.value)},":
                                out.append((rel, fn.name, "kwdrop", (kw.value.lineno, 0, len(ln)), ""))
                if isinstance(n, ast.Subscript) and isinstance(n.slice, ast.Tuple) and n.slice.elts and \
                        isinstance(n.slice.elts[-1], ast.Constant) and n.slice.elts[-1].value in (0, 1) and \
                        not isinstance(n.slice.elts[-1].value, bool):
                    c = n.slice.elts[-1]
                    out.append((rel, fn.name, "idx", (c.lineno, c.col_offset, c.end_col_offset), str(1 - c.value)))
    # de-duplicate
    seen, res = set(), []
    for m in out:
        k = (m[0], m[3])
        if k not in seen:
            seen.add(k); res.append(m)
    return res


def all_mutants(props):
    A = anchors()
    res = []
    for p in props:
        for rel, names in sorted(A[p].items()):
            path = os.path.join(REPO, rel)
            if os.path.exists(path):
                for m in mutants_of(path, rel, names):
                    res.append((p,) + m)
    return res


def apply(copy_dir, m):
    _, rel, _, _, (ln, a, b), new = m
    path = os.path.join(copy_dir, rel)
    lines = open(path).read().split("\n")
    old = lines[ln - 1]
    lines[ln - 1] = old[:a] + new + old[b:]
    open(path, "w").write("\n".join(lines))
    return old.strip(), lines[ln - 1].strip()


def main():
    args = sys.argv[1:]
    if not args:
        print(__doc__); return 2
    mode = args[0]
    rest = args[1:]
    mx, seed = None, 0
    if "--max" in rest:
        i = rest.index("--max"); mx = int(rest[i + 1]); del rest[i:i + 2]
    if "--seed" in rest:
        i = rest.index("--seed"); seed = int(rest[i + 1]); del rest[i:i + 2]
    if mode == "list":
        props = rest or sorted(anchors())
        for m in all_mutants(props):
            print("\t".join(str(x) for x in m))
        return 0
    out_path, lanes = rest[0], int(rest[1])
    props = rest[2:] or sorted(anchors())
    per_prop = {}
    rnd = random.Random(seed)
    for p in props:
        ms = all_mutants([p])
        rnd.shuffle(ms)
        per_prop[p] = ms[:mx] if mx else ms
    lock = threading.Lock()
    queue = list(per_prop)            # one property is worked on by one lane at a time (evidence / journal files are per property)
    outf = open(out_path, "a")

    def lane(k):
        while True:
            with lock:
                if not queue:
                    return
                p = queue.pop(0)
            for m in per_prop[p]:
                d = tempfile.mkdtemp(prefix=f"mut-{p}-", dir="/var/tmp")
                try:
                    shutil.copytree(os.path.join(REPO, "mchap"), os.path.join(d, "mchap"),
                                    ignore=shutil.ignore_patterns("__pycache__", "tests"))
                    old, new = apply(d, m)
                    try:
                        compile(open(os.path.join(d, m[1])).read(), m[1], "exec")
                    except SyntaxError:
                        continue
                    t0 = time.time()
                    try:
                        r = subprocess.run([os.path.join(VERIF, "check"), p, "quick"], cwd=VERIF, capture_output=True, text=True,
                                           env={**os.environ, "MCHAP_REPO": d}, timeout=1500)
                        code = r.returncode
                        tail = [l for l in r.stdout.split("\n") if l.startswith("VIOLATION")][:1]
                    except subprocess.TimeoutExpired:
                        code, tail = 124, []
                    with lock:
                        outf.write("\t".join([p, m[1], m[2], m[3], str(m[4][0]), old, "->", new, f"exit={code}", f"{time.time() - t0:.0f}s",
                                              (tail[0] if tail else "")]) + "\n")
                        outf.flush()
                finally:
                    shutil.rmtree(d, ignore_errors=True)

    ts = [threading.Thread(target=lane, args=(k,)) for k in range(lanes)]
    for t in ts:
        t.start()
    for t in ts:
        t.join()
    return 0


if __name__ == "__main__":
    sys.exit(main())
