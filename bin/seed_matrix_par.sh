#!/bin/bash
# usage: bin/seed_matrix_par.sh   -- bin/seed_matrix.sh in five lanes (disjoint properties per lane); result in seeded/MATRIX.txt
cd /verif
lanes=("C01 C02 C03 C04" "C05 C06 C07 C08" "C09 C10 C11 C12" "C13 C14 C15 C16" "C17 C18 C19 C20")
i=0
for l in "${lanes[@]}"; do
  SEED_MATRIX_OUT=/var/tmp/seed_matrix.$i.txt bin/seed_matrix.sh $l > /dev/null 2>&1 &
  i=$((i+1))
done
wait
{
  echo "# bin/seed_matrix.sh on /repo HEAD $(git -C /repo rev-parse --short HEAD) (quick tier, VERIF_SEED=${VERIF_SEED:-0}): every stored seed applied to a copy of the current tree"
  echo "# name property result"
  cat /var/tmp/seed_matrix.[0-4].txt | sort
} > seeded/MATRIX.txt
rm -f /var/tmp/seed_matrix.[0-4].txt
grep -vc "exit=1\|^#" seeded/MATRIX.txt
