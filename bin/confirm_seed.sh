#!/bin/bash
# usage: bin/confirm_seed.sh <worktree> <ID> <seed-name>
# Confirms a seeded property-breaking change held in a scratch worktree (uncommitted diff + demo_<ID>.py):
#   demo fails with the change, passes without; the pinned suite still passes with the change.
# On success stores patch.diff + demo in /verif/seeded/<seed-name>/ and prints a summary (meta.json is written by hand).
W=$1; ID=$2; NAME=$3
OUT=/verif/seeded/$NAME
mkdir -p "$OUT"
cd "$W" || exit 2
git diff > "$OUT/patch.diff"
[ -s "$OUT/patch.diff" ] || { echo "empty patch"; exit 2; }
cp "demo_$ID.py" "$OUT/demo.py"
run_demo() { local nb; nb=$(mktemp -d /var/tmp/nbc.XXXXXX); NUMBA_CACHE_DIR=$nb PYTHONPATH="$W" timeout 900 /venv/bin/python -W ignore "demo_$ID.py" > "$1" 2>&1; local rc=$?; rm -rf "$nb"; return $rc; }
run_demo /tmp/demo_with.$$; WITH=$?
git apply -R "$OUT/patch.diff"
run_demo /tmp/demo_without.$$; WITHOUT=$?
git apply "$OUT/patch.diff"
echo "demo with change: exit $WITH ; without: exit $WITHOUT"
tail -3 /tmp/demo_with.$$ | cut -c1-300
rm -f /tmp/demo_with.$$ /tmp/demo_without.$$
find "$W" -name __pycache__ -prune -exec rm -rf {} + 2>/dev/null
/verif/bin/baseline.sh "$W" 2>&1 | tail -2
