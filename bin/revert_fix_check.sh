#!/bin/bash
# usage: bin/revert_fix_check.sh <commit> <property> [tier]
# Copies /repo/mchap, reverses one fix commit in the copy and runs the property's check against it.
# Expected: exit 1 with a VIOLATION (the fixed entry in known_findings.json suppresses nothing).
C=$1; P=$2; T=${3:-quick}
D=$(mktemp -d /var/tmp/revert.XXXXXX)
cp -r /repo/mchap "$D/mchap"
find "$D" -name __pycache__ -prune -exec rm -rf {} + 2>/dev/null
git -C /repo show "$C" -- mchap | (cd "$D" && patch -R -p1 -s) || { echo "patch failed"; rm -rf "$D"; exit 2; }
cd /verif
MCHAP_REPO="$D" timeout 2400 ./check "$P" "$T" 2>&1 | grep -E "VIOLATION|KNOWN|^\[$P" | head -4
rm -rf "$D"
