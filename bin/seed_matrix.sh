#!/bin/bash
# usage: bin/seed_matrix.sh [name-prefix ...]
# Regression over the stored seeds: for every /verif/seeded/<name>/ copy /repo's working tree, apply patch.diff, run the
# check of the property the seed breaks (quick tier) against the copy and print one line per seed.  A patch that no longer
# applies to the current tree (the code it touched was repaired since) is reported as "stale".
cd /verif
OUT=${SEED_MATRIX_OUT:-/var/tmp/seed_matrix.txt}
: > "$OUT"
for d in seeded/*/; do
  name=$(basename "$d")
  if [ $# -gt 0 ]; then ok=0; for p in "$@"; do case "$name" in $p*) ok=1;; esac; done; [ $ok = 1 ] || continue; fi
  prop=$(python3 -c "import json;print(json.load(open('$d/meta.json'))['breaks_property'])" 2>/dev/null) || { echo "$name no-meta" | tee -a "$OUT"; continue; }
  W=$(mktemp -d /var/tmp/seedrun.XXXXXX)
  git -C /repo archive HEAD | tar -x -C "$W"
  if ! (cd "$W" && patch -p1 -s --no-backup-if-mismatch < /verif/"$d"/patch.diff >/dev/null 2>&1); then
    echo "$name $prop stale-patch" | tee -a "$OUT"; rm -rf "$W"; continue
  fi
  MCHAP_REPO="$W" timeout 3000 ./check "$prop" quick > "$W.log" 2>&1; rc=$?
  sig=$(grep -m1 "VIOLATION" "$W.log" | cut -c1-120)
  echo "$name $prop exit=$rc $sig" | tee -a "$OUT"
  rm -rf "$W" "$W.log"
done
