#!/usr/bin/env python3
"""Regenerates MANIFEST.json from harness/registry.py (single source of truth)."""
import json, sys, os
sys.path.insert(0, os.path.dirname(os.path.dirname(os.path.abspath(__file__))))
from harness.registry import CHECKS, NOT_APPLICABLE

props = [json.loads(l)["id"] for l in open(os.path.join(os.path.dirname(__file__), "..", "properties.jsonl"))]
checks = []
for pid in props:
    if pid not in CHECKS:
        continue
    c = CHECKS[pid]
    checks.append({
        "property_id": pid,
        "quick_cmd": f"./check {pid} quick",
        "thorough_cmd": f"./check {pid} thorough",
        "evidence_file": f"evidence/{pid}.json",
        "replay_cmd_template": f"./check {pid} --replay {{path}}",
        "engine": "lean4-model+correspondence",
        "level_claimed": {"category": "proof", "text": c["text"], "design_ref": c["design_ref"]},
        "level_note": c["note"],
        "technique": c["technique"],
    })
na = [{"property_id": p, "reason": NOT_APPLICABLE.get(p, "check not built yet in this revision; see DESIGN.md section 4")}
      for p in props if p not in CHECKS]
m = {
    "version": 1,
    "setup_cmd": "./setup.sh",
    "hooks": {
        "guard": "MCHAP_VERIF",
        "enable": "no source hooks: checks import /repo's working tree (editable install) and observe it by patching module globals from outside; MCHAP_VERIF=1 is exported by the checks but nothing in /repo reads it",
        "baseline_off_cmd": "cd /repo && /venv/bin/python -m pytest -ra -q -p no:cacheprovider --timeout=900 --continue-on-collection-errors",
        "source_commits": [],
        "add_only": True,
    },
    "engines": [{
        "name": "lean4-model+correspondence",
        "path": "lean/ (model, proofs, driver) + harness/ (correspondence, oracles)",
        "serves_properties": [c["property_id"] for c in checks],
        "kind_free_text": "Lean 4 theorems over a hand-written executable model; differential correspondence of the model's native driver against the real code on every run; implementation oracles search for a concrete failing input when a correspondence or proof breaks",
    }],
    "checks": checks,
    "not_applicable": na,
    "notes": "fix: commits in /repo and the defects they repair are listed in known_findings.json; seeded/ holds confirmed property-breaking patches used to test the checks.",
}
if not na:
    m.pop("not_applicable")
open(os.path.join(os.path.dirname(__file__), "..", "MANIFEST.json"), "w").write(json.dumps(m, indent=1) + "\n")
print(f"{len(checks)} checks, {len(na)} not claimed")
