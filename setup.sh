#!/bin/sh
# MANIFEST.setup_cmd: build the Lean library + native drivers, then warm the numba cache. Offline.
# Each property module is built on its own so that one broken module cannot block the others
# (every check rebuilds what it needs anyway and reports a broken proof obligation itself).
cd "$(dirname "$0")" || exit 2
cd lean || exit 2
for exe in driver driver_io driver_vcf driver_prog driver_loci driver_ped driver_sum; do
  lake build "$exe" > /dev/null 2>&1 || echo "setup: $exe did not build"
done
for i in 01 02 03 04 05 06 07 08 09 10 11 12 13 14 15 16 17 18 19 20; do
  [ -f "MCHap/Properties/C$i.lean" ] || continue
  lake build "MCHap.Properties.C$i" > /dev/null 2>&1 || echo "setup: MCHap.Properties.C$i did not build"
done
# the whole library in one environment (all property modules imported together: no clashing names)
lake build > /dev/null 2>&1 || echo "setup: the default targets did not build as a whole"
cd ..
./check all warm > /dev/null 2>&1
exit 0
