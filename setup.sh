#!/bin/sh
# MANIFEST.setup_cmd: build the Lean library + native driver, then warm the numba cache. Offline.
cd "$(dirname "$0")" || exit 2
(cd lean && lake build) || exit 1
./check all warm > /dev/null 2>&1
exit 0
